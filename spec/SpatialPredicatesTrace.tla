---- MODULE SpatialPredicatesTrace ----
(* C05, binding B: cases recorded from the real code, judged by TLC.

   trace.ndjson is produced by `vh-spatial pred` (harness/cmd/vh-spatial/pred.go): one line per case with
     kind     "<query>-<feature>" (see SpatialPredicates.tla)
     m, n     the primitive geometric facts of the concrete geometry, computed with s2 only
     matches  what the code's Query.Matches(feature) returned
   A line is BAD when matches # Matches(kind, m, n).  Every line is consumed (one step per line); the
   POSTCONDITION checks that the whole file was read. *)
EXTENDS SpatialPredicates, TLC, Json

Trace == ndJsonDeserialize("trace.ndjson")

VARIABLE l

Judge(i, e) ==
    LET want == Matches(e.kind, e.m, e.n)
    IN IF e.matches = want THEN TRUE
       ELSE PrintT(<<"BAD", ToJson([line |-> i, kind |-> e.kind, want |-> want, got |-> e.matches])>>)

TInit == l = 1
TNext == /\ l <= Len(Trace)
         /\ Judge(l, Trace[l])
         /\ l' = l + 1

AllRead == TLCGet("stats").diameter - 1 = Len(Trace)
====
