---- MODULE SpatialPredicatesTables ----
(* C05: the truth tables of the predicates of SpatialPredicates.tla, enumerated by TLC.
   Every table (kind, m, n) up to the bounds is a state; the invariants are the design properties; every
   table is printed as a ROW line with the expected answer, which the harness tries to realise with concrete
   geometry on the real code (tools/props/C05.py measures which rows were realised). *)
EXTENDS SpatialPredicates, TLC, Json

\* ---- the truth tables -------------------------------------------------------------------------------------
CONSTANTS MaxParts,     \* most parts (polygons, cells, vertices, edges) along one dimension of a table
          MaxLoops      \* most loops per polygon in cap-area tables

Mat(r, c) == [1..r -> [1..c -> BOOLEAN]]
Scalar == {"point-point", "point-path", "polyline-point", "cap-point"}
RowVec == {"point-area", "multipolygon-point", "cap-path"}                   \* 1 x k
ColVec == {"cells-point"}                                                    \* k x 1
Matrix == Kinds \ (Scalar \cup RowVec \cup ColVec \cup {"cap-area"})         \* r x c
NoN == <<>>                                                                  \* n is only used by cap-area

\* cap-area: every polygon has its own number of loops
RECURSIVE Ragged(_)
Ragged(k) == IF k = 0 THEN {<<>>}
             ELSE {Append(t, row) : t \in Ragged(k - 1), row \in UNION {[1..l -> BOOLEAN] : l \in 1..MaxLoops}}
SameShape(a, b) == Len(a) = Len(b) /\ \A i \in DOMAIN a : Len(a[i]) = Len(b[i])

Tables(kind) ==
    IF kind \in Scalar THEN {[m |-> m, n |-> NoN] : m \in Mat(1, 1)}
    ELSE IF kind \in RowVec THEN {[m |-> m, n |-> NoN] : m \in UNION {Mat(1, k) : k \in 1..MaxParts}}
    ELSE IF kind \in ColVec THEN {[m |-> m, n |-> NoN] : m \in UNION {Mat(k, 1) : k \in 1..MaxParts}}
    ELSE IF kind = "cap-area"
         THEN {[m |-> m, n |-> n] : <<m, n>> \in {p \in UNION {Ragged(k) \X Ragged(k) : k \in 1..2} : SameShape(p[1], p[2])}}
    ELSE {[m |-> m, n |-> NoN] : m \in UNION {Mat(r, c) : r \in 1..MaxParts, c \in 1..2}}

VARIABLES kind, t
vars == <<kind, t>>
Init == kind \in Kinds /\ t \in Tables(kind)
Next == UNCHANGED vars
Spec == Init /\ [][Next]_vars

Res == Matches(kind, t.m, t.n)

\* ---- properties of the design
\* a single true primitive fact is enough (for cap-area: a single edge within the radius)
TrueFactSuffices == AnyFact(t.m) => Res
\* nothing matches without a fact (for cap-area: unless the centre is inside)
NoFactNoMatch == (~AnyFact(t.m) /\ kind # "cap-area") => ~Res
\* the order of the parts does not matter: swapping two rows, or two columns, keeps the answer
SwapRows(m, a, b) == [i \in DOMAIN m |-> IF i = a THEN m[b] ELSE IF i = b THEN m[a] ELSE m[i]]
SwapCols(m, a, b) == [i \in DOMAIN m |-> [j \in DOMAIN m[i] |-> IF j = a THEN m[i][b] ELSE IF j = b THEN m[i][a] ELSE m[i][j]]]
PartOrderIrrelevant ==
    /\ \A a, b \in DOMAIN t.m :
          Res = Matches(kind, SwapRows(t.m, a, b), IF kind = "cap-area" THEN SwapRows(t.n, a, b) ELSE t.n)
    /\ kind # "cap-area" =>
          \A a, b \in DOMAIN t.m[1] : Res = Matches(kind, SwapCols(t.m, a, b), t.n)
\* a further part never removes a match: dropping the last row of a matching table with >= 2 rows that still matches
\* is not required, but a table that matches on its first rows alone matches as a whole
Prefix(m, k) == [i \in 1..k |-> m[i]]
AddingPartsKeepsMatch ==
    /\ \A k \in 1..(Len(t.m) - 1) :
          Matches(kind, Prefix(t.m, k), IF kind = "cap-area" THEN Prefix(t.n, k) ELSE t.n) => Res
    /\ kind # "cap-area" =>
          \A k \in 1..(Len(t.m[1]) - 1) : Matches(kind, [i \in DOMAIN t.m |-> Prefix(t.m[i], k)], t.n) => Res

\* ---- export
EmitRows == \A k \in Kinds : \A x \in Tables(k) :
    PrintT(<<"ROW", ToJson([kind |-> k, m |-> x.m, n |-> x.n, expect |-> Matches(k, x.m, x.n)])>>)
InitEmit == EmitRows /\ Init
====
