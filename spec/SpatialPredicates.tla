---- MODULE SpatialPredicates ----
(* C05: the LOGICAL STRUCTURE of the intersection tests of b6/spatial.go (Query.Matches) over primitive
   geometric facts.  The facts themselves (is this point inside that loop, is this edge within that radius,
   do these two edges cross) are supplied by the s2 library, which is the trusted base; exact spherical
   geometry is not decided here.  What is specified is how the hand-written code must combine them.

   A case is a kind "<query>-<feature>" and one or two boolean matrices:

   kind                 m[i][j]                                                   matches
   point-point          m[1][1]  the two points are the same point                m[1][1]
   point-path           m[1][1]  the point lies on the path                       m[1][1]
   point-area           m[1][i]  polygon i of the area contains the point         \E i
   polyline-point       m[1][1]  the point lies on the polyline                   m[1][1]
   polyline-path        m[i][j]  edge i of the polyline crosses edge j of path    \E i, j
   polyline-area        m[i][k]  polygon i contains VERTEX k of the polyline      \E i, k   (documented approximation)
   multipolygon-point   m[1][i]  query polygon i contains the point               \E i      (ANY polygon)
   multipolygon-path    m[i][k]  query polygon i contains VERTEX k of the path    \E i, k   (documented approximation)
   multipolygon-area    m[a][b]  polygon a of the area meets query polygon b      \E a, b
   cap-point            m[1][1]  the point is within the radius                   m[1][1]
   cap-path             m[1][e]  edge e of the path comes within the radius       \E e
   cap-area             m[i][j]  loop j of polygon i has an edge within the radius
                        n[i][j]  the centre is inside loop j of polygon i         \E i : (\E j : m[i][j]) \/ Odd(#{j : n[i][j]})
                                 (loops are nested shells and holes: the centre is in the polygon iff it is in an
                                  odd number of its loops -- true for convex AND concave loops)
   cells-point          m[c][1]  cell c contains the point                        \E c
   cells-path           m[c][e]  cell c is touched by edge e of the path          \E c, e
   cells-area           m[c][i]  cell c touches polygon i of the area             \E c, i

   This module holds the definitions only.  SpatialPredicatesTables.tla enumerates every truth table up to a
   bound with TLC (ROW lines) and checks the design properties (a true fact suffices; the order of parts is
   irrelevant; adding a part never removes a match).  Binding: harness/cmd/vh-spatial "pred" realises rows with
   concrete geometry, computes the facts with s2, records the code's Matches; SpatialPredicatesTrace.tla judges
   every recorded case with Matches below. *)
EXTENDS Integers, Sequences, FiniteSets

AnyFact(m) == \E i \in DOMAIN m : \E j \in DOMAIN m[i] : m[i][j]
Odd(k) == k % 2 = 1
TrueCount(row) == Cardinality({j \in DOMAIN row : row[j]})

PointMatchesPoint(m) == m[1][1]
PointMatchesPath(m) == m[1][1]
PointMatchesArea(m) == \E i \in DOMAIN m[1] : m[1][i]
PolylineMatchesPoint(m) == m[1][1]
PolylineMatchesPath(m) == \E i \in DOMAIN m : \E j \in DOMAIN m[i] : m[i][j]
PolylineMatchesArea(m) == \E i \in DOMAIN m : \E k \in DOMAIN m[i] : m[i][k]
MultiPolygonMatchesPoint(m) == \E i \in DOMAIN m[1] : m[1][i]
MultiPolygonMatchesPath(m) == \E i \in DOMAIN m : \E k \in DOMAIN m[i] : m[i][k]
MultiPolygonMatchesArea(m) == \E a \in DOMAIN m : \E b \in DOMAIN m[a] : m[a][b]
CapMatchesPoint(m) == m[1][1]
CapMatchesPath(m) == \E e \in DOMAIN m[1] : m[1][e]
CapMatchesPolygon(ew, ci) == (\E j \in DOMAIN ew : ew[j]) \/ Odd(TrueCount(ci))
CapMatchesArea(m, n) == \E i \in DOMAIN m : CapMatchesPolygon(m[i], n[i])
CellsMatchPoint(m) == \E c \in DOMAIN m : m[c][1]
CellsMatchPath(m) == \E c \in DOMAIN m : \E e \in DOMAIN m[c] : m[c][e]
CellsMatchArea(m) == \E c \in DOMAIN m : \E i \in DOMAIN m[c] : m[c][i]

Kinds == {"point-point", "point-path", "point-area", "polyline-point", "polyline-path", "polyline-area",
          "multipolygon-point", "multipolygon-path", "multipolygon-area", "cap-point", "cap-path", "cap-area",
          "cells-point", "cells-path", "cells-area"}

Matches(kind, m, n) ==
    CASE kind = "point-point" -> PointMatchesPoint(m)
      [] kind = "point-path" -> PointMatchesPath(m)
      [] kind = "point-area" -> PointMatchesArea(m)
      [] kind = "polyline-point" -> PolylineMatchesPoint(m)
      [] kind = "polyline-path" -> PolylineMatchesPath(m)
      [] kind = "polyline-area" -> PolylineMatchesArea(m)
      [] kind = "multipolygon-point" -> MultiPolygonMatchesPoint(m)
      [] kind = "multipolygon-path" -> MultiPolygonMatchesPath(m)
      [] kind = "multipolygon-area" -> MultiPolygonMatchesArea(m)
      [] kind = "cap-point" -> CapMatchesPoint(m)
      [] kind = "cap-path" -> CapMatchesPath(m)
      [] kind = "cap-area" -> CapMatchesArea(m, n)
      [] kind = "cells-point" -> CellsMatchPoint(m)
      [] kind = "cells-path" -> CellsMatchPath(m)
      [] kind = "cells-area" -> CellsMatchArea(m)
====
