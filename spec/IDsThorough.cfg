SPECIFICATION Spec
CONSTANTS
  OrderTypes = {0, 1, 3, 5, 6}
  OrderNs = {2, 3, 8, 9}
  OrderVals = {0, 2, 6, 7}
INVARIANTS Irreflexive Asymmetric Transitive Total CompactConsistent
CHECK_DEADLOCK FALSE
