---- MODULE GeoJSONShape ----
(* geojson/geojson.go + ingest/change.go (AddFeatures.FillFromGeoJSON): property C32.

   Family R (codec): there is no interesting state machine here.  The module contributes
     (1) the STRUCTURE space of GeoJSON geometries: kind x part / ring counts 0..3 x ring lengths,
         with abstract vertices 1..n (a linear ring of n distinct vertices is <<1, .., n, 1>>: GeoJSON
         repeats the first position at the end), crossed with a place class (where the adapter puts
         the vertices) and a ring-orientation class, for feature collections of 1..3 features;
     (2) the abstract import rule `Import`: one b6 feature per GeoJSON feature, ID = index in the
         collection, Point -> point, LineString -> path with the same vertex sequence,
         Polygon -> area with one polygon, MultiPolygon -> area with one polygon per member, every
         ring WITHOUT the closing duplicate (which is how geojson.Polygon.ToS2Polygon itself reads a
         ring); MultiPoint / MultiLineString features are not mapped to a single feature ("skip");
     (3) sanity properties of that rule, checked by TLC on every enumerated collection.
   Every state is one CASE line (input structure + expected import) executed on the real code.     *)
EXTENDS Integers, Sequences, FiniteSets, TLC, Json
CONSTANTS Places,     \* e.g. {"london", "sydney", "origin", "arctic", "antimeridian"}
          Orients,    \* ring orientation classes {"rfc", "rev", "ccw"}
          PropsAll,   \* property map classes
          MaxParts    \* 3
VARIABLES fc, place, orient
vars == <<fc, place, orient>>

Ring(n) == [i \in 1..(n + 1) |-> IF i = n + 1 THEN 1 ELSE i]
Open(r) == SubSeq(r, 1, Len(r) - 1)
Line(n) == [i \in 1..n |-> i]

SeqsUpTo(S, n) == UNION {[1..k -> S] : k \in 0..n}
SeqsFrom(S, lo, hi) == UNION {[1..k -> S] : k \in lo..hi}

\* ---- geometry structures per kind (each set is homogeneous in shape)
PointG      == {1}
MultiPointG == {Line(n) : n \in 0..MaxParts}
LineG       == {Line(n) : n \in 2..4} \cup {Ring(3)}                      \* incl. a closed line string
MultiLineG  == {[i \in DOMAIN ls |-> Line(ls[i])] : ls \in SeqsUpTo({2, 3}, MaxParts)}
PolygonG    == {[i \in DOMAIN ns |-> Ring(ns[i])] : ns \in SeqsUpTo({3, 4, 5}, MaxParts)}
OnePolygonG == {[i \in DOMAIN ns |-> Ring(ns[i])] : ns \in SeqsFrom({3, 4}, 1, 2)}
MultiPolyG  == SeqsUpTo(OnePolygonG, MaxParts)

Kinds == {"Point", "MultiPoint", "LineString", "MultiLineString", "Polygon", "MultiPolygon"}
GeomsOf(k) == CASE k = "Point" -> PointG [] k = "MultiPoint" -> MultiPointG [] k = "LineString" -> LineG
                [] k = "MultiLineString" -> MultiLineG [] k = "Polygon" -> PolygonG [] k = "MultiPolygon" -> MultiPolyG
\* one representative per kind for collections of several features
Rep(k) == CASE k = "Point" -> 1 [] k = "MultiPoint" -> Line(2) [] k = "LineString" -> Line(3)
            [] k = "MultiLineString" -> <<Line(2), Line(3)>> [] k = "Polygon" -> <<Ring(4), Ring(3)>>
            [] k = "MultiPolygon" -> << <<Ring(3)>>, <<Ring(4), Ring(3)>> >>
HasRings(k) == k \in {"Polygon", "MultiPolygon"}
\* property classes are varied on the simple structures only
PropsFor(k, g) == IF g = Rep(k) \/ k = "Point" THEN PropsAll ELSE {"one"}

Feature(k, g, p) == [kind |-> k, g |-> g, props |-> p]

\* ---- the abstract import rule
ImportOne(f, n) ==
  CASE f.kind = "Point"        -> [t |-> "point", id |-> n, g |-> f.g]
    [] f.kind = "LineString"   -> [t |-> "path",  id |-> n, g |-> f.g]
    [] f.kind = "Polygon"      -> [t |-> "area",  id |-> n, g |-> << [r \in DOMAIN f.g |-> Open(f.g[r])] >>]
    [] f.kind = "MultiPolygon" -> [t |-> "area",  id |-> n,
                                   g |-> [p \in DOMAIN f.g |-> [r \in DOMAIN f.g[p] |-> Open(f.g[p][r])]]]
    [] OTHER                   -> [t |-> "skip",  id |-> n, g |-> <<>>]
Import(c) == [i \in DOMAIN c |-> ImportOne(c[i], i - 1)]

\* ---- the enumerated space: single features of every structure, and 2..3 representatives of every kind
Init == /\ place \in Places
        /\ \/ \E k \in Kinds : \E g \in GeomsOf(k) : \E p \in PropsFor(k, g) :
                 /\ fc = <<Feature(k, g, p)>>
                 /\ orient \in (IF HasRings(k) /\ g # <<>> THEN Orients ELSE {"rfc"})
           \/ \E a, b \in Kinds : /\ fc = <<Feature(a, Rep(a), "one"), Feature(b, Rep(b), "two")>>
                                   /\ orient = "rfc"
           \/ \E a, b, c \in Kinds : /\ (a # b \/ b # c)
                                      /\ fc = <<Feature(a, Rep(a), "idx"), Feature(b, Rep(b), "none"), Feature(c, Rep(c), "one")>>
                                      /\ orient = "rev"
Next == UNCHANGED vars
Spec == Init /\ [][Next]_vars

\* ---- properties of the rule, and the export
Distinct(s) == \A i, j \in DOMAIN s : i # j => s[i] # s[j]
RuleOK ==
  LET out == Import(fc) IN
  /\ Len(out) = Len(fc)                                                   \* one result per GeoJSON feature
  /\ \A i \in DOMAIN out : out[i].id = i - 1                              \* ID = index
  /\ \A i \in DOMAIN out : out[i].t = "area" =>
        \A p \in DOMAIN out[i].g : \A r \in DOMAIN out[i].g[p] :
            /\ Distinct(out[i].g[p][r])                                   \* no closing duplicate left
            /\ Len(out[i].g[p][r]) >= 3
  /\ \A i \in DOMAIN out : (out[i].t = "skip") <=> (fc[i].kind \in {"MultiPoint", "MultiLineString"})

Emit == PrintT(<<"CASE", ToJson([fc |-> fc, expect |-> Import(fc), place |-> place, orient |-> orient])>>)
Inv == RuleOK /\ Emit
====
