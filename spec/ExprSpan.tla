---- MODULE ExprSpan ----
(* C20, second half: "every parsed node's begin/end positions lie within its parent's span and cover the text it came
   from" as a predicate over parse trees LOGGED FROM THE REAL PARSER (binding B, trace validation).

   trace.ndjson: one record per parsed text,
     [len |-> bytes of the text, toks |-> <<<<b, e>>, ...>> token offsets of the text,
      tree |-> [kind, b, e, kids |-> <<...>>]   the tree api.ParseExpression returned (Function first, then Args),
      wlen, wtoks, wtree |-> the same for the SAME tokens separated by extra whitespace]
   The token offsets come from the harness's own tokeniser, not from the parser under test. *)
EXTENDS Integers, Sequences, FiniteSets, TLC, Json

Trace == ndJsonDeserialize("trace.ndjson")
VARIABLE i
Init == i = 1
Next == i <= Len(Trace) /\ i' = i + 1
Spec == Init /\ [][Next]_i

Begins(toks) == {toks[j][1] : j \in DOMAIN toks}
Ends(toks)   == {toks[j][2] : j \in DOMAIN toks}
TokB(toks, b) == CHOOSE j \in DOMAIN toks : toks[j][1] = b
TokE(toks, e) == CHOOSE j \in DOMAIN toks : toks[j][2] = e

\* children in source order: a pipeline `arg | function` has its argument first, everything else is head first
InOrder(n) ==
  IF n.kind = "pipeline"
    THEN Len(n.kids) = 2 => n.kids[2].e <= n.kids[1].b
    ELSE \A j, k \in DOMAIN n.kids : j < k => n.kids[j].e <= n.kids[k].b

RECURSIVE NodeOK(_, _, _)
NodeOK(n, toks, len) ==
  /\ 0 <= n.b /\ n.b < n.e /\ n.e <= len                       \* a real, non-empty piece of the text
  /\ n.b \in Begins(toks) /\ n.e \in Ends(toks)                \* made of whole tokens
  /\ \A k \in DOMAIN n.kids : n.b <= n.kids[k].b /\ n.kids[k].e <= n.e   \* children inside the parent
  /\ InOrder(n)
  /\ \A k \in DOMAIN n.kids : NodeOK(n.kids[k], toks, len)

\* extra whitespace moves a span exactly as it moves the span's first and last token
RECURSIVE Stable(_, _, _, _)
Stable(n, w, toks, wtoks) ==
  /\ n.kind = w.kind /\ Len(n.kids) = Len(w.kids)
  /\ w.b = wtoks[TokB(toks, n.b)][1]
  /\ w.e = wtoks[TokE(toks, n.e)][2]
  /\ \A k \in DOMAIN n.kids : Stable(n.kids[k], w.kids[k], toks, wtoks)

RecOK(r) == /\ NodeOK(r.tree, r.toks, r.len)
            /\ NodeOK(r.wtree, r.wtoks, r.wlen)
            /\ Len(r.toks) = Len(r.wtoks)
            /\ Stable(r.tree, r.wtree, r.toks, r.wtoks)

AllSpansOK == i <= Len(Trace) => RecOK(Trace[i])
Finished == TLCGet("stats").diameter - 1 = Len(Trace)
====
