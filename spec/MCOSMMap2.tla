---- MODULE MCOSMMap2 ----
(* Second input family for OSMMap: SEQUENCES of multipolygon relations of different shapes in one file (one reader
   goroutine sees them one after the other).  Five closed ways over five nodes are fixed; each of the three
   relations is one of seven member lists: one or several polygons, with and without inner loops, a polygon with
   more loops followed by one with fewer at the same position, a non-multipolygon relation in between.  What one
   relation becomes must not depend on the relations read before it. *)
EXTENDS OSMMap

MCNodeIDs == 1..5
MCWayIDs == 1..5
MCRelIDs == 1..3
MCKeys == {"#highway", "@wikidata", "name", "type"}
MCVals == {"x", "y"}
MCIDOrder == <<"P1", "P2", "P3", "P4", "P5", "W1", "W2", "W3", "W4", "W5", "A101", "A102", "A103",
               "A1", "A2", "A3", "A4", "A5", "R1", "R2", "R3">>

OT(h, w, n, t) == [k \in OSMKeys |-> CASE k = "highway" -> h [] k = "wikidata" -> w [] k = "name" -> n [] k = "type" -> t [] OTHER -> "-"]
With(t, k, v) == [t EXCEPT ![k] = v]
NoOT == OT("-", "-", "-", "-")
M(t, id, role) == [t |-> t, id |-> id, role |-> role]
Rel(ms, t) == [type |-> "r", members |-> ms, tags |-> t]
NoRel == [type |-> "-", members |-> <<>>, tags |-> NoOT]
MP == OT("-", "-", "x", "multipolygon")

Nodes2 == [n \in MCNodeIDs |-> [v |-> n - 1, tags |-> IF n = 1 THEN OT("x", "-", "-", "-") ELSE NoOT]]
Ways2 == [w \in MCWayIDs |->
   CASE w = 1 -> [nodes |-> <<1, 2, 3, 1>>, tags |-> OT("-", "-", "x", "-")]
     [] w = 2 -> [nodes |-> <<2, 3, 4, 2>>, tags |-> NoOT]
     [] w = 3 -> [nodes |-> <<3, 4, 5, 3>>, tags |-> OT("-", "y", "-", "-")]
     [] w = 4 -> [nodes |-> <<1, 3, 5, 1>>, tags |-> NoOT]
     [] w = 5 -> [nodes |-> <<1, 2, 4, 1>>, tags |-> NoOT]]
Shapes == {
   NoRel,
   Rel(<<M("w", 1, "outer")>>, MP),                                                                        \* [[1]]
   Rel(<<M("w", 1, "outer"), M("w", 2, "inner")>>, MP),                                                   \* [[1,2]]
   Rel(<<M("w", 1, "outer"), M("w", 3, "outer")>>, MP),                                                   \* [[1],[3]]
   Rel(<<M("w", 1, "outer"), M("w", 2, "inner"), M("w", 3, "outer"), M("w", 4, "inner"), M("w", 5, "inner")>>, MP),  \* [[1,2],[3,4,5]]
   Rel(<<M("w", 2, "outer"), M("w", 4, "outer"), M("w", 5, "outer"), M("w", 1, "inner")>>, MP),          \* [[2],[4],[5,1]]
   \* a member that is not a way (a label node, with the empty role) between an outer way and its inner way: only ways
   \* start or continue polygons
   Rel(<<M("w", 1, "outer"), M("n", 1, ""), M("w", 2, "inner")>>, MP),                                     \* [[1,2]]
   Rel(<<M("w", 3, ""), M("w", 1, "via")>>, OT("x", "-", "-", "route")) }
MCInputs == {[nodes |-> Nodes2, ways |-> Ways2, rels |-> [r \in MCRelIDs |-> CASE r = 1 -> a [] r = 2 -> b [] r = 3 -> c]] :
                a \in Shapes, b \in Shapes, c \in Shapes}

Tg(k, v) == [k |-> "tagged", key |-> k, val |-> v]
Ky(k) == [k |-> "keyed", key |-> k]
Ty(t, q) == [k |-> "typed", t |-> t, q |-> q]
MCQueries == [ all_          |-> [k |-> "all"],
               keyed_h       |-> Ky("#highway"),
               allTypedA_    |-> Ty("A", [k |-> "all"]),
               allTypedR_    |-> Ty("R", [k |-> "all"]) ]
MCNoAlt == [id \in {MCIDOrder[i] : i \in DOMAIN MCIDOrder} |-> {Absent}]
ASSUME PrintT(<<"QUERIES", ToJson(MCQueries)>>)
ASSUME PrintT(<<"KEYS", ToJson(MCKeys)>>)
ASSUME PrintT(<<"IDS", ToJson(MCIDOrder)>>)
====
