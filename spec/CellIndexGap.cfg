\* the code as built: SoundAsBuilt is expected to be VIOLATED (candidate: a feature covering containing a face cell)
INIT Init
NEXT Next
CONSTANTS
  Faces = {0}
  Depth = 2
  MaxCov = 2
INVARIANTS SoundAsBuilt
CHECK_DEADLOCK FALSE
