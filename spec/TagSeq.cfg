SPECIFICATION Spec
CONSTANTS
  Keys = {"a", "b", "c"}
  Absent = {"d"}
  Vals = {"1", "2", "nil"}
  MaxRemove = 3
INVARIANT KeysStayDistinct
PROPERTIES OrderKept RemovesExactly
ACTION_CONSTRAINT Emit
VIEW View
CHECK_DEADLOCK FALSE
