---- MODULE StreamsEachItem ----
(* encoding/uint64map.go: Uint64Map.EachItem(f, goroutines)  -- C28.

   Transcription, one action per channel / lock / WaitGroup operation:

       buckets := make(chan int)                    unbuffered: a send is one joint action with a receive
       cancel  := make(chan struct{}, goroutines)   `tokens` = number of values in it
       worker:   for bucket := range buckets {      WRecv / WRecvClosed
                     for i := 1; i < len(ids); i++ {          (all ids of a bucket are distinct here)
                         if err = f(ids[start]); err != nil { break }     Call, not the last id of the bucket
                         start = i }
                     if err = f(ids[start]); err != nil { break }         Call on the last id / Recall
                 }
                 if err != nil { lock; cause = err; cancel <- {}; unlock }    Fail
                 wg.Done()
       producer: for bucket := 0; bucket < sentinel; bucket++ {
                     select { case buckets <- bucket:          Send(w)
                              case <-cancel: break } }         TakeCancel
                 close(buckets); wg.Wait(); return cause       Close, Wait

   Fixed = FALSE (cfg.fixed) is the code before commit 77e226d ("Before" variant):
     * `break` inside `select` leaves the select only: the producer skips that bucket and goes on.  Once every
       worker has failed, nobody receives and the cancel channel runs dry: the producer blocks for ever.
     * `break` inside the inner `for` leaves the inner loop only: f is invoked AGAIN on the id that just
       failed (Recall); if that second call succeeds, err is overwritten with nil and the error is lost.
   Fixed = TRUE is the code as it stands, after fixes/C28-eachitem-labelled-break.diff (both breaks labelled:
   `break feeding`, `break reading`). *)
EXTENDS Integers, Sequences, FiniteSets, TLC, Json, StreamsBase
CONSTANTS MaxG,       \* goroutine counts 1..MaxG
          SizeVecs,   \* set of bucket-size sequences, e.g. {<<1,1>>, <<2,1,0,1>>}; Len = number of buckets
          MaxFail,    \* largest number of failing items
          Modes,      \* subset of {"item", "once", "sticky"}
          Variants,   \* which protocols: subset of {TRUE, FALSE} (cfg.fixed; TRUE: code as it stands, FALSE: before the fix)
          JudgeAll    \* FALSE: the properties below speak about the repaired protocol only; TRUE: about every variant
VARIABLES cfg,        \* the configuration (chosen in Init, never changes)
          pnext,      \* producer: next bucket to offer
          ppc,        \* producer: "loop" | "close" | "wait" | "returned"
          closed,     \* close(buckets) happened
          tokens,     \* values in the cancel channel
          cause,      \* "nil" | "err"
          wpc,        \* worker: "recv" | "call" | "recall" | "fail" | "exit" | "none"
          wb, wi,     \* worker: current bucket and position in it
          calls,      \* item -> callback invocations so far (capped at 2)
          failed,     \* the callback has returned an error at least once
          ret         \* "" while running, then "nil" | "err"
vars == <<cfg, pnext, ppc, closed, tokens, cause, wpc, wb, wi, calls, failed, ret>>

\* bucket layouts for the cfg files (`SizeVecs <- QuickSizes`): the number of buckets is a power of two
QuickSizes == {<<1>>, <<2>>, <<1, 1>>, <<2, 1>>, <<1, 1, 1, 1>>}
ThoroughSizes == QuickSizes \cup {<<2, 0, 1, 1>>, <<0, 1>>, <<1, 2>>, <<2, 2>>, <<1, 2, 1, 1>>, <<0, 1, 1, 2>>, <<1, 1, 0, 0>>, <<2, 2, 1, 1>>}
AllConfigs == Configs(MaxG, SizeVecs, MaxFail, Modes, Variants)
Fixed == cfg.fixed
Judged == Fixed \/ JudgeAll
MaxItems == MaxOf({NItems(s) : s \in SizeVecs})
S == cfg.sizes
NB == Len(S)
W == 1..cfg.g
Cur(w) == Item(S, wb[w], wi[w])
Fails(k) == CbFails(cfg.mode, cfg.F, k, calls, failed)

Init == /\ cfg \in AllConfigs
        /\ pnext = 1 /\ ppc = "loop" /\ closed = FALSE /\ tokens = 0 /\ cause = "nil"
        /\ wpc = [w \in 1..MaxG |-> IF w <= cfg.g THEN "recv" ELSE "none"]
        /\ wb = [w \in 1..MaxG |-> 0] /\ wi = [w \in 1..MaxG |-> 0]
        /\ calls = [k \in 1..MaxItems |-> 0]
        /\ failed = FALSE /\ ret = ""

\* ---- producer ----
\* case buckets <- bucket, received by worker w (an empty bucket takes the worker straight back to the receive)
Send(w) == /\ ppc = "loop" /\ pnext <= NB /\ wpc[w] = "recv"
           /\ pnext' = pnext + 1
           /\ wb' = [wb EXCEPT ![w] = pnext]
           /\ IF S[pnext] = 0
              THEN UNCHANGED <<wpc, wi>>
              ELSE wpc' = [wpc EXCEPT ![w] = "call"] /\ wi' = [wi EXCEPT ![w] = 1]
           /\ UNCHANGED <<cfg, ppc, closed, tokens, cause, calls, failed, ret>>
\* case <-cancel: break
TakeCancel == /\ ppc = "loop" /\ pnext <= NB /\ tokens > 0
              /\ tokens' = tokens - 1
              /\ IF Fixed THEN ppc' = "close" /\ pnext' = pnext
                          ELSE ppc' = ppc /\ pnext' = pnext + 1
              /\ UNCHANGED <<cfg, closed, cause, wpc, wb, wi, calls, failed, ret>>
Close == /\ \/ ppc = "loop" /\ pnext > NB
            \/ ppc = "close"
         /\ closed' = TRUE /\ ppc' = "wait"
         /\ UNCHANGED <<cfg, pnext, tokens, cause, wpc, wb, wi, calls, failed, ret>>
Wait == /\ ppc = "wait" /\ \A w \in W : wpc[w] = "exit"
        /\ ret' = cause /\ ppc' = "returned"
        /\ UNCHANGED <<cfg, pnext, closed, tokens, cause, wpc, wb, wi, calls, failed>>

\* ---- workers ----
WRecvClosed(w) == /\ wpc[w] = "recv" /\ closed
                  /\ wpc' = [wpc EXCEPT ![w] = "exit"]
                  /\ UNCHANGED <<cfg, pnext, ppc, closed, tokens, cause, wb, wi, calls, failed, ret>>
Call(w) == /\ wpc[w] = "call"
           /\ LET k == Cur(w)
                  last == wi[w] = S[wb[w]]
              IN /\ calls' = [calls EXCEPT ![k] = Bump(@)]
                 /\ failed' = (failed \/ Fails(k))
                 /\ IF Fails(k)
                    THEN /\ wpc' = [wpc EXCEPT ![w] = IF last \/ Fixed THEN "fail" ELSE "recall"]
                         /\ wi' = wi
                    ELSE IF last THEN wpc' = [wpc EXCEPT ![w] = "recv"] /\ wi' = wi
                                 ELSE wpc' = wpc /\ wi' = [wi EXCEPT ![w] = @ + 1]
           /\ UNCHANGED <<cfg, pnext, ppc, closed, tokens, cause, wb, ret>>
\* after the inner break: `if err = f(ids[start], ...)` runs on the id that has just failed
Recall(w) == /\ wpc[w] = "recall"
             /\ LET k == Cur(w)
                IN /\ calls' = [calls EXCEPT ![k] = Bump(@)]
                   /\ failed' = (failed \/ Fails(k))
                   /\ wpc' = [wpc EXCEPT ![w] = IF Fails(k) THEN "fail" ELSE "recv"]
             /\ UNCHANGED <<cfg, pnext, ppc, closed, tokens, cause, wb, wi, ret>>
Fail(w) == /\ wpc[w] = "fail"
           /\ cause' = "err" /\ tokens' = tokens + 1          \* capacity = goroutines: never blocks
           /\ wpc' = [wpc EXCEPT ![w] = "exit"]
           /\ UNCHANGED <<cfg, pnext, ppc, closed, wb, wi, calls, failed, ret>>

Step == \/ TakeCancel \/ Close \/ Wait
        \/ \E w \in W : Send(w) \/ WRecvClosed(w) \/ Call(w) \/ Recall(w) \/ Fail(w)

\* ---- observation ----
Stuck == ret = "" /\ ~ENABLED Step                       \* nobody can move and the call has not returned: a hang
Delivered == {k \in 1..MaxItems : calls[k] > 0}
Outcome == [inst |-> "eachitem", fixed |-> Fixed, g |-> cfg.g, sizes |-> S, fail |-> cfg.F, mode |-> cfg.mode,
            ret |-> IF ret = "" THEN "hang" ELSE ret,
            delivered |-> Delivered, twice |-> {k \in 1..MaxItems : calls[k] > 1}]
Halt == /\ ret # "" \/ Stuck
        /\ PrintT(<<"OUTCOME", ToJson(Outcome)>>)
        /\ UNCHANGED vars
Next == Step \/ Halt
Spec == Init /\ [][Next]_vars /\ WF_vars(Step)

\* ---- properties of the design (C28) ----
NoHang == Judged => ~Stuck
\* returned => (some callback failed <=> a non-nil error is returned)
ReportsError == (Judged /\ ret # "") => (failed <=> ret = "err")
\* without a failure every item is delivered exactly once
Complete == (ret # "" /\ ~failed) => \A k \in 1..NItems(S) : calls[k] = 1
\* no callback is invoked a second time on an item (EachItem re-invokes f on the failed id before the fix)
NoSecondCall == Judged => \A k \in 1..MaxItems : calls[k] < 2
Terminates == Judged => <>(ret # "")
====
