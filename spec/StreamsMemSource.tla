---- MODULE StreamsMemSource ----
(* ingest/features.go: MemoryFeatureSource.Read(options, emit, ctx)  -- C28.

       c := make(chan Feature, cores)                 `q`, capacity g
       ctx, cancel := context.WithCancel(ctx)         `cancelled`
       worker:   for { select {
                     case <-ctx.Done(): return                          WDone
                     case f, ok := <-c:                                 WRecv / WRecvClosed
                         if ok { if err := emit(f, g); err != nil { cause = err; cancel() } }    Call
                         else  { return } } }
       producer: for _, f := range m { select { case c <- f:            Send
                                                  case <-ctx.Done(): break feeding } }   PDone (only when Fixed)
                 close(c); wg.Wait(); return cause                      Close, Wait

   Fixed = FALSE (cfg.fixed) is the code before commit 3f18754 ("Before" variant): after cancel() every worker may leave through ctx.Done while the
   producer still has features to send; once the buffer is full the producer blocks for ever.
   Fixed = TRUE is the code as it stands, after fixes/C28-memsource-select-done.diff: the producer selects on ctx.Done()
   and leaves the loop (labelled break). *)
EXTENDS Integers, Sequences, FiniteSets, TLC, Json, StreamsBase
CONSTANTS MaxG, SizeVecs, MaxFail, Modes,
          Variants,   \* which protocols: subset of {TRUE, FALSE} (cfg.fixed)
          JudgeAll    \* FALSE: the properties below speak about the repaired protocol only; TRUE: about every variant
VARIABLES cfg, pnext, ppc, closed, q, cancelled, cause, wpc, wcur, calls, failed, ret
vars == <<cfg, pnext, ppc, closed, q, cancelled, cause, wpc, wcur, calls, failed, ret>>

\* every unit is one feature
QuickSizes == {<<>>, <<1>>, <<1, 1>>, <<1, 1, 1>>}
ThoroughSizes == QuickSizes \cup {<<1, 1, 1, 1>>, <<1, 1, 1, 1, 1>>}
AllConfigs == Configs(MaxG, SizeVecs, MaxFail, Modes, Variants)
Fixed == cfg.fixed
Judged == Fixed \/ JudgeAll
MaxItems == MaxOf({NItems(s) : s \in SizeVecs} \cup {1})
N == Len(cfg.sizes)
W == 1..cfg.g
Fails(k) == CbFails(cfg.mode, cfg.F, k, calls, failed)

Init == /\ cfg \in AllConfigs
        /\ pnext = 1 /\ ppc = "loop" /\ closed = FALSE /\ q = <<>> /\ cancelled = FALSE /\ cause = "nil"
        /\ wpc = [w \in 1..MaxG |-> IF w <= cfg.g THEN "sel" ELSE "none"]
        /\ wcur = [w \in 1..MaxG |-> 0]
        /\ calls = [k \in 1..MaxItems |-> 0]
        /\ failed = FALSE /\ ret = ""

\* ---- producer ----
Send == /\ ppc = "loop" /\ pnext <= N /\ Len(q) < cfg.g
        /\ q' = Append(q, pnext) /\ pnext' = pnext + 1
        /\ UNCHANGED <<cfg, ppc, closed, cancelled, cause, wpc, wcur, calls, failed, ret>>
\* only after the fix: case <-ctx.Done(): break feeding
PDone == /\ Fixed /\ ppc = "loop" /\ pnext <= N /\ cancelled
         /\ ppc' = "close"
         /\ UNCHANGED <<cfg, pnext, closed, q, cancelled, cause, wpc, wcur, calls, failed, ret>>
Close == /\ \/ ppc = "loop" /\ pnext > N
            \/ ppc = "close"
         /\ closed' = TRUE /\ ppc' = "wait"
         /\ UNCHANGED <<cfg, pnext, q, cancelled, cause, wpc, wcur, calls, failed, ret>>
Wait == /\ ppc = "wait" /\ \A w \in W : wpc[w] = "exit"
        /\ ret' = cause /\ ppc' = "returned"
        /\ UNCHANGED <<cfg, pnext, closed, q, cancelled, cause, wpc, wcur, calls, failed>>

\* ---- workers ----
WDone(w) == /\ wpc[w] = "sel" /\ cancelled
            /\ wpc' = [wpc EXCEPT ![w] = "exit"]
            /\ UNCHANGED <<cfg, pnext, ppc, closed, q, cancelled, cause, wcur, calls, failed, ret>>
WRecv(w) == /\ wpc[w] = "sel" /\ q # <<>>
            /\ wcur' = [wcur EXCEPT ![w] = Head(q)] /\ q' = Tail(q)
            /\ wpc' = [wpc EXCEPT ![w] = "call"]
            /\ UNCHANGED <<cfg, pnext, ppc, closed, cancelled, cause, calls, failed, ret>>
WRecvClosed(w) == /\ wpc[w] = "sel" /\ q = <<>> /\ closed
                  /\ wpc' = [wpc EXCEPT ![w] = "exit"]
                  /\ UNCHANGED <<cfg, pnext, ppc, closed, q, cancelled, cause, wcur, calls, failed, ret>>
Call(w) == /\ wpc[w] = "call"
           /\ LET k == wcur[w]
              IN /\ calls' = [calls EXCEPT ![k] = Bump(@)]
                 /\ failed' = (failed \/ Fails(k))
                 /\ IF Fails(k) THEN cause' = "err" /\ cancelled' = TRUE
                                ELSE UNCHANGED <<cause, cancelled>>
           /\ wpc' = [wpc EXCEPT ![w] = "sel"]
           /\ UNCHANGED <<cfg, pnext, ppc, closed, q, wcur, ret>>

Step == \/ Send \/ PDone \/ Close \/ Wait
        \/ \E w \in W : WDone(w) \/ WRecv(w) \/ WRecvClosed(w) \/ Call(w)

\* ---- observation ----
Stuck == ret = "" /\ ~ENABLED Step
Outcome == [inst |-> "memsource", fixed |-> Fixed, g |-> cfg.g, sizes |-> cfg.sizes, fail |-> cfg.F, mode |-> cfg.mode,
            ret |-> IF ret = "" THEN "hang" ELSE ret,
            delivered |-> {k \in 1..MaxItems : calls[k] > 0}, twice |-> {k \in 1..MaxItems : calls[k] > 1}]
Halt == /\ ret # "" \/ Stuck
        /\ PrintT(<<"OUTCOME", ToJson(Outcome)>>)
        /\ UNCHANGED vars
Next == Step \/ Halt
Spec == Init /\ [][Next]_vars /\ WF_vars(Step)

\* ---- properties of the design (C28) ----
NoHang == Judged => ~Stuck
ReportsError == (Judged /\ ret # "") => (failed <=> ret = "err")
Complete == (ret # "" /\ ~failed) => \A k \in 1..N : calls[k] = 1
NoSecondCall == Judged => \A k \in 1..MaxItems : calls[k] < 2
Terminates == Judged => <>(ret # "")
====
