SPECIFICATION Spec
CONSTANTS
  Keys = {0, 1, 2}
  Vals <- MCVals
  MaxLen = 3
  Counts <- MCCounts
  Thr = 0
  JoinVal = 9
  MaxOther = 2
  MaxDepth = 1
  Probes <- MCProbes
  Enabled <- MCFunctions
INVARIANT TypeOK
PROPERTIES TakeIsPrefix FilterSelects MapKeepsShape FlattenIsConcat Aggregates TopIsTop JoinIsMerge
ACTION_CONSTRAINT Emit
VIEW View
CHECK_DEADLOCK FALSE
