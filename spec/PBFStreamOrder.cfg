\* expected to be VIOLATED: a reader with several goroutines does not deliver in file order.
\* The counterexample is the candidate that C27 replays on the real reader (adapter pbf-order).
SPECIFICATION Spec
CONSTANTS
  G = 2
  MaxOps = 3
  Cores = 2
  Gran = 100
INVARIANTS GlobalOrder
CHECK_DEADLOCK FALSE
