---- MODULE Codec ----
(* C11 -- compact record codecs (ingest/compact/encoding.go).

   Codec refinement:  Encode(v) appends n cells to a buffer, Decode(buffer, offset) returns (v', m);
   the design must satisfy  v' = v  and  m = n  for every record value, wherever the record sits in a
   larger buffer and whatever follows it (RoundTrip, Framing).

   The module contains
     (1) the SHAPE grammar of every record kind (which optional parts are present, which namespace a
         reference is in relative to the primary namespace of its field, value class incl. the top
         bit, list lengths, geometry encodings, relation/primary combinations),
     (2) a W-bit MINIATURE of the wire format: the same structure as encoding.go (short/explicit
         reference form chosen by primary namespace and top bit, zig-zag delta coding inside the primary
         namespace, presence bit vectors, geometry-encoding dispatch, per-field primary namespaces of
         the point/path/area/relation records) over W-bit words instead of 64-bit ones.  A "cell" stands
         for one varint / fixed-width item.  TLC checks RoundTrip and Framing for every shape on the
         miniature: this is a check of the DESIGN (is the format self-delimiting, do both sides agree
         on primaries), not of the Go code,
     (3) the export: every shape is printed as a CASE line; harness/cmd/vh-codec instantiates it with
         64-bit values for every exported Marshal/Unmarshal pair and judges the real code by the same
         two equations (the expected result of a case is the shape itself and "consumed = written").

   Word k of the miniature is concretised by the harness as value class k:
     0 zero, 1 one, 2 small, 3 bit31, 4 bit32, 5 bit62, 6 bit63, 7 max      (W = 3).
   Namespace codes (tns): 1..4 = the primary namespace of point/path/area/relation in the block's
   Namespaces, 9 = a namespace that is nobody's primary, 100 = "the primary of the field this list is
   put in", 101 = "the primary of a sibling field", 0 = invalid (no primary).                          *)
EXTENDS Integers, Sequences, FiniteSets, TLC, Json

CONSTANTS W,              \* word size of the miniature
          MaxLen,         \* longest list among the deep list shapes
          Words3,         \* words used in reference lists of length 3 (shorter lists use every word)
          MixWords,       \* words used inside mixed reference/lat-lng lists and members
          RecLen,         \* longest reference list inside record shapes
          GeomLen,        \* longest path list / polygon count in area-geometry shapes
          Kinds,          \* which kinds to enumerate
          AreaRelEncP     \* primary used by the ENCODER for Area.Relations: 4 (relation) in the design

VARIABLES kind, shape, pre, post, res
vars == <<kind, shape, pre, post, res>>

M == 2^W
Word == 0..(M - 1)
Top(x) == x >= M \div 2
Sg(x) == IF Top(x) THEN x - M ELSE x                       \* two's complement reading of a word
ZZ(d) == IF d >= 0 THEN 2 * d ELSE -2 * d - 1              \* zig-zag of a signed W-bit value: a word
UnZZ(z) == IF z % 2 = 0 THEN z \div 2 ELSE -((z + 1) \div 2)
Delta(v, last) == ZZ(Sg((v - last) % M))
Undelta(z, last) == (last + UnZZ(z)) % M

C(k, a, b) == [k |-> k, a |-> a, b |-> b]                  \* one cell of the buffer
At(b, i) == IF i \in DOMAIN b THEN b[i] ELSE C("eof", 0, 0)
Garbage(n) == [i \in 1..n |-> C("g", 5, 5)]
Seqs(S, n) == UNION {[1..k -> S] : k \in 0..n}
R(v, n) == [v |-> v, n |-> n]                              \* result of a decoder: value, next index

\* ------------------------------------------------------------------ references
EncRef(r, P) == IF r.tns # P \/ Top(r.v) THEN <<C("x", r.tns, 0), C("u", r.v, 0)>> ELSE <<C("s", r.v, 0)>>
DecRef(b, i, P) == IF At(b, i).k = "s" THEN R([tns |-> P, v |-> At(b, i).a], i + 1)
                   ELSE R([tns |-> At(b, i).a, v |-> At(b, i + 1).a], i + 2)

RECURSIVE EncRefs(_, _, _)
EncRefs(l, P, last) ==
  IF l = <<>> THEN <<>>
  ELSE LET r == Head(l) IN
       IF r.tns = P THEN EncRef([tns |-> P, v |-> Delta(r.v, last)], P) \o EncRefs(Tail(l), P, r.v)
       ELSE EncRef(r, P) \o EncRefs(Tail(l), P, last)
RECURSIVE DecRefs(_, _, _, _, _)
DecRefs(b, i, c, P, last) ==
  IF c <= 0 THEN R(<<>>, i)
  ELSE LET d == DecRef(b, i, P)
           r == IF d.v.tns = P THEN [tns |-> P, v |-> Undelta(d.v.v, last)] ELSE d.v
           rest == DecRefs(b, d.n, c - 1, P, IF d.v.tns = P THEN r.v ELSE last)
       IN R(<<r>> \o rest.v, rest.n)
EncRefList(l, P) == <<C("geo", Len(l), 0)>> \o EncRefs(l, P, 0)
DecRefList(b, i, P) == DecRefs(b, i + 1, At(b, i).a, P, 0)

\* ------------------------------------------------------------------ lat/lngs (class c -> a pair of words)
LLC == 0..5
LLPair(c) == [lat |-> c, lng |-> (5 * c + 3) % M]
RECURSIVE EncLLs(_, _)
EncLLs(l, last) ==
  IF l = <<>> THEN <<>>
  ELSE LET p == LLPair(Head(l)) IN
       <<C("d", Sg((p.lat - last.lat) % M), Sg((p.lng - last.lng) % M))>> \o EncLLs(Tail(l), p)
LLClassOf(lat, lng) == IF \E c \in LLC : LLPair(c) = [lat |-> lat, lng |-> lng]
                       THEN CHOOSE c \in LLC : LLPair(c) = [lat |-> lat, lng |-> lng] ELSE -1
RECURSIVE DecLLs(_, _, _, _)
DecLLs(b, i, c, last) ==
  IF c <= 0 THEN R(<<>>, i)
  ELSE LET lat == (last.lat + At(b, i).a) % M
           lng == (last.lng + At(b, i).b) % M
           rest == DecLLs(b, i + 1, c - 1, [lat |-> lat, lng |-> lng])
       IN R(<<LLClassOf(lat, lng)>> \o rest.v, rest.n)
Origin == [lat |-> 0, lng |-> 0]
EncLLList(l) == <<C("geo", Len(l), 1)>> \o EncLLs(l, Origin)
DecLLList(b, i) == DecLLs(b, i + 1, At(b, i).a, Origin)

\* ------------------------------------------------------------------ bit vectors
RECURSIVE ByteVal(_, _, _)
ByteVal(bs, lo, hi) == IF lo > hi THEN 0
                       ELSE (IF bs[lo] THEN 2^((lo - 1) % 8) ELSE 0) + ByteVal(bs, lo + 1, hi)
NBytes(n) == (n + 7) \div 8
Min2(a, b) == IF a < b THEN a ELSE b
EncBits(bs) == <<C("bl", Len(bs), 0)>> \o
               [k \in 1..NBytes(Len(bs)) |-> C("by", ByteVal(bs, 8 * (k - 1) + 1, Min2(8 * k, Len(bs))), 0)]
BitOf(x, k) == (x \div 2^k) % 2 = 1
DecBits(b, i) == LET n == At(b, i).a IN
                 R([j \in 1..n |-> BitOf(At(b, i + 1 + ((j - 1) \div 8)).a, (j - 1) % 8)], i + 1 + NBytes(n))

\* ------------------------------------------------------------------ mixed reference / lat-lng lists
\* element: [r |-> TRUE, tns, v] (a reference) or [r |-> FALSE, tns |-> 0, v |-> lat/lng class]
RECURSIVE EncMixEls(_, _, _, _)
EncMixEls(l, P, last, lastll) ==
  IF l = <<>> THEN <<>>
  ELSE LET e == Head(l) IN
       IF e.r THEN (IF e.tns = P THEN EncRef([tns |-> P, v |-> Delta(e.v, last)], P) \o EncMixEls(Tail(l), P, e.v, lastll)
                    ELSE EncRef(e, P) \o EncMixEls(Tail(l), P, last, lastll))
       ELSE LET p == LLPair(e.v) IN
            <<C("d", Sg((p.lat - lastll.lat) % M), Sg((p.lng - lastll.lng) % M))>> \o EncMixEls(Tail(l), P, last, p)
EncMixed(l, P) == <<C("geo", Len(l), 2)>> \o EncBits([j \in 1..Len(l) |-> l[j].r]) \o EncMixEls(l, P, 0, Origin)
RECURSIVE DecMixEls(_, _, _, _, _, _, _)
DecMixEls(b, i, flags, j, P, last, lastll) ==
  IF j > Len(flags) THEN R(<<>>, i)
  ELSE IF flags[j]
       THEN LET d == DecRef(b, i, P)
                v == IF d.v.tns = P THEN Undelta(d.v.v, last) ELSE d.v.v
                rest == DecMixEls(b, d.n, flags, j + 1, P, IF d.v.tns = P THEN v ELSE last, lastll)
            IN R(<<[r |-> TRUE, tns |-> d.v.tns, v |-> v]>> \o rest.v, rest.n)
       ELSE LET lat == (lastll.lat + At(b, i).a) % M
                lng == (lastll.lng + At(b, i).b) % M
                rest == DecMixEls(b, i + 1, flags, j + 1, P, last, [lat |-> lat, lng |-> lng])
            IN R(<<[r |-> FALSE, tns |-> 0, v |-> LLClassOf(lat, lng)]>> \o rest.v, rest.n)
DecMixed(b, i, P) == LET f == DecBits(b, i + 1) IN DecMixEls(b, f.n, f.v, 1, P, 0, Origin)

\* ------------------------------------------------------------------ tags
\* tag: [k |-> key class, t |-> "str" | "pt" | "lls" | "refs" | "mixed", s |-> scalar (string id class / point class),
\*       l |-> list of elements [r, tns, v] as in mixed lists (lls: only lat/lng elements, refs: only references)]
LLOnly(l) == [j \in 1..Len(l) |-> l[j].v]
RefOnly(l) == [j \in 1..Len(l) |-> [tns |-> l[j].tns, v |-> l[j].v]]
AsLL(l) == [j \in 1..Len(l) |-> [r |-> FALSE, tns |-> 0, v |-> l[j]]]
AsRef(l) == [j \in 1..Len(l) |-> [r |-> TRUE, tns |-> l[j].tns, v |-> l[j].v]]
EncTagVal(t, P) == CASE t.t = "str" -> <<C("vs", t.s, 0)>>
                     [] t.t = "pt" -> <<C("vp", LLPair(t.s).lat, LLPair(t.s).lng)>>
                     [] t.t = "lls" -> EncLLList(LLOnly(t.l))
                     [] t.t = "refs" -> EncRefList(RefOnly(t.l), P)
                     [] t.t = "mixed" -> EncMixed(t.l, P)
RECURSIVE EncTagSeq(_, _)
EncTagSeq(l, P) == IF l = <<>> THEN <<>>
                   ELSE <<C("key", Head(l).k, 0)>> \o EncTagVal(Head(l), P) \o EncTagSeq(Tail(l), P)
EncTags(l, P) == <<C("n", Len(l), 0)>> \o EncTagSeq(l, P)
TV(t, s, l, n) == R([t |-> t, s |-> s, l |-> l], n)
DecTagVal(b, i, P) ==       \* the value kind is inferred from the first cell, as inferValueType does
  LET c == At(b, i) IN
  CASE c.k = "vs" -> TV("str", c.a, <<>>, i + 1)
    [] c.k = "vp" -> TV("pt", LLClassOf(c.a, c.b), <<>>, i + 1)
    [] c.k = "geo" /\ c.b = 1 -> LET d == DecLLList(b, i) IN TV("lls", 0, AsLL(d.v), d.n)
    [] c.k = "geo" /\ c.b = 0 -> LET d == DecRefList(b, i, P) IN TV("refs", 0, AsRef(d.v), d.n)
    [] c.k = "geo" /\ c.b = 2 -> LET d == DecMixed(b, i, P) IN TV("mixed", 0, d.v, d.n)
    [] OTHER -> TV("bad", 0, <<>>, i + 1)
RECURSIVE DecTagSeq(_, _, _, _)
DecTagSeq(b, i, c, P) ==
  IF c <= 0 THEN R(<<>>, i)
  ELSE LET d == DecTagVal(b, i + 1, P)
           rest == DecTagSeq(b, d.n, c - 1, P)
       IN R(<<[k |-> At(b, i).a, t |-> d.v.t, s |-> d.v.s, l |-> d.v.l]>> \o rest.v, rest.n)
DecTags(b, i, P) == DecTagSeq(b, i + 1, At(b, i).a, P)

\* ------------------------------------------------------------------ relation members
\* member: [ty |-> feature type 0..3, role |-> class, tns, v]
RECURSIVE EncMemberSeq(_, _)
EncMemberSeq(l, P) == IF l = <<>> THEN <<>>
                      ELSE <<C("role", Head(l).role, Head(l).ty)>> \o EncRef([tns |-> Head(l).tns, v |-> Head(l).v], P)
                           \o EncMemberSeq(Tail(l), P)
EncMembers(l, P) == <<C("n", Len(l), 0)>> \o EncMemberSeq(l, P)
RECURSIVE DecMemberSeq(_, _, _, _)
DecMemberSeq(b, i, c, P) ==
  IF c <= 0 THEN R(<<>>, i)
  ELSE LET d == DecRef(b, i + 1, P)
           rest == DecMemberSeq(b, d.n, c - 1, P)
       IN R(<<[ty |-> At(b, i).b, role |-> At(b, i).a, tns |-> d.v.tns, v |-> d.v.v]>> \o rest.v, rest.n)
DecMembers(b, i, P) == DecMemberSeq(b, i + 1, At(b, i).a, P)

\* ------------------------------------------------------------------ area geometry (three encodings)
\* refs:  [e |-> 0, offs |-> increasing split positions, paths |-> reference list]
\* lls:   [e |-> 1, polys |-> Seq([loops |-> split positions, pts |-> lat/lng classes])]
\* mixed: [e |-> 2, polys |-> Seq([refs |-> reference list (empty = lat/lng polygon), loops, pts])]
RECURSIVE EncInts(_, _)
EncInts(l, last) == IF l = <<>> THEN <<>> ELSE <<C("o", ZZ(Head(l) - last), 0)>> \o EncInts(Tail(l), Head(l))
RECURSIVE DecInts(_, _, _, _)
DecInts(b, i, c, last) == IF c <= 0 THEN R(<<>>, i)
                          ELSE LET v == last + UnZZ(At(b, i).a)
                                   rest == DecInts(b, i + 1, c - 1, v)
                               IN R(<<v>> \o rest.v, rest.n)
EncPolyLL(p) == <<C("n", Len(p.loops), 0)>> \o EncInts(p.loops, 0) \o EncLLList(p.pts)
DecPolyLL(b, i) == LET lo == DecInts(b, i + 1, At(b, i).a, 0)
                       pts == DecLLList(b, lo.n)
                   IN R([loops |-> lo.v, pts |-> pts.v], pts.n)
RECURSIVE EncPolysLL(_)
EncPolysLL(l) == IF l = <<>> THEN <<>> ELSE EncPolyLL(Head(l)) \o EncPolysLL(Tail(l))
RECURSIVE DecPolysLL(_, _, _)
DecPolysLL(b, i, c) == IF c <= 0 THEN R(<<>>, i)
                       ELSE LET d == DecPolyLL(b, i)
                                rest == DecPolysLL(b, d.n, c - 1)
                            IN R(<<d.v>> \o rest.v, rest.n)
RECURSIVE EncPolysMixed(_, _)
EncPolysMixed(l, P) ==
  IF l = <<>> THEN <<>>
  ELSE (IF Len(Head(l).refs) > 0 THEN EncRefList(Head(l).refs, P)
        ELSE EncPolyLL([loops |-> Head(l).loops, pts |-> Head(l).pts])) \o EncPolysMixed(Tail(l), P)
RECURSIVE DecPolysMixed(_, _, _, _, _)
DecPolysMixed(b, i, flags, j, P) ==
  IF j > Len(flags) THEN R(<<>>, i)
  ELSE IF flags[j]
       THEN LET d == DecRefList(b, i, P)
                rest == DecPolysMixed(b, d.n, flags, j + 1, P)
            IN R(<<[refs |-> d.v, loops |-> <<>>, pts |-> <<>>]>> \o rest.v, rest.n)
       ELSE LET d == DecPolyLL(b, i)
                rest == DecPolysMixed(b, d.n, flags, j + 1, P)
            IN R(<<[refs |-> <<>>, loops |-> d.v.loops, pts |-> d.v.pts]>> \o rest.v, rest.n)
EncGeom(g, P) ==
  CASE g.e = 0 -> <<C("geo", Len(g.offs), 0)>> \o EncInts(g.offs, 0) \o EncRefList(g.paths, P)
    [] g.e = 1 -> <<C("geo", Len(g.polys), 1)>> \o EncPolysLL(g.polys)
    [] g.e = 2 -> <<C("geo", Len(g.polys), 2)>> \o EncBits([j \in 1..Len(g.polys) |-> Len(g.polys[j].refs) > 0])
                  \o EncPolysMixed(g.polys, P)
DecGeom(b, i, P) ==          \* dispatch on the encoding recorded in the header, as UnmarshalAreaGeometry does
  LET h == At(b, i) IN
  CASE h.b = 0 -> LET o == DecInts(b, i + 1, h.a, 0)
                      p == DecRefList(b, o.n, P)
                  IN R([e |-> 0, offs |-> o.v, paths |-> p.v], p.n)
    [] h.b = 1 -> LET d == DecPolysLL(b, i + 1, h.a) IN R([e |-> 1, polys |-> d.v], d.n)
    [] h.b = 2 -> LET f == DecBits(b, i + 1)
                      d == DecPolysMixed(b, f.n, f.v, 1, P)
                  IN R([e |-> 2, polys |-> d.v], d.n)
    [] OTHER -> R([e |-> -1], i + 1)

\* ------------------------------------------------------------------ records: fields and their primaries
PPoint == 1
PPath == 2
PArea == 3
PRelation == 4
POther == 9
\* Area.Relations: the encoder's primary is a constant so that the effect of a marshal/unmarshal
\* disagreement can be shown on the model (AreaRelEncP = 2 reproduces the unchanged tree's Area.Marshal).
EncRecord(k, s) ==
  CASE k = "commonpoint" -> EncTags(s.tags, 0) \o EncRef(s.path, PPath)
    [] k = "fullpoint" -> EncTags(s.tags, 0) \o EncRefList(s.paths, PPath) \o EncRefList(s.rels, PRelation)
    [] k = "path" -> EncTags(s.tags, PPoint) \o EncRefList(s.areas, PArea) \o EncRefList(s.rels, PRelation)
    [] k = "area" -> EncTags(s.tags, 0) \o EncGeom(s.geom, PPath) \o EncRefList(s.rels, AreaRelEncP)
    [] k = "relation" -> EncTags(s.tags, 0) \o EncMembers(s.members, s.primary) \o EncRefList(s.rels, PRelation)
DecRecord(k, b, i, s) ==      \* s is only consulted for the relation's primary type (an argument of Unmarshal)
  CASE k = "commonpoint" -> LET t == DecTags(b, i, 0)
                                r == DecRef(b, t.n, PPath)
                            IN R([tags |-> t.v, path |-> r.v], r.n)
    [] k = "fullpoint" -> LET t == DecTags(b, i, 0)
                              p == DecRefList(b, t.n, PPath)
                              r == DecRefList(b, p.n, PRelation)
                          IN R([tags |-> t.v, paths |-> p.v, rels |-> r.v], r.n)
    [] k = "path" -> LET t == DecTags(b, i, PPoint)
                         a == DecRefList(b, t.n, PArea)
                         r == DecRefList(b, a.n, PRelation)
                     IN R([tags |-> t.v, areas |-> a.v, rels |-> r.v], r.n)
    [] k = "area" -> LET t == DecTags(b, i, 0)
                         g == DecGeom(b, t.n, PPath)
                         r == DecRefList(b, g.n, PRelation)
                     IN R([tags |-> t.v, geom |-> g.v, rels |-> r.v], r.n)
    [] k = "relation" -> LET t == DecTags(b, i, 0)
                             m == DecMembers(b, t.n, s.primary)
                             r == DecRefList(b, m.n, PRelation)
                         IN R([primary |-> s.primary, tags |-> t.v, members |-> m.v, rels |-> r.v], r.n)

\* posting-list header: [tok |-> token class, n |-> feature count class, nss |-> Seq([tns, idx])]
RECURSIVE EncNsIdx(_)
EncNsIdx(l) == IF l = <<>> THEN <<>> ELSE <<C("ni", Head(l).tns, Head(l).idx)>> \o EncNsIdx(Tail(l))
EncPLH(h) == <<C("str", h.tok, 0), C("u", h.n, 0), C("n", Len(h.nss), 0)>> \o EncNsIdx(h.nss)
DecPLH(b, i) == LET c == At(b, i + 2).a IN
                R([tok |-> At(b, i).a, n |-> At(b, i + 1).a,
                   nss |-> [j \in 1..c |-> [tns |-> At(b, i + 2 + j).a, idx |-> At(b, i + 2 + j).b]]], i + 3 + c)

\* ------------------------------------------------------------------ generic encode / decode
DeepP == 100
Enc(k, s) ==
  CASE k = "refs" -> EncRefList(s, DeepP)
    [] k = "lls" -> EncLLList(s)
    [] k = "mixed" -> EncMixed(s, DeepP)
    [] k = "bits" -> EncBits(s)
    [] k = "tags" -> EncTags(s, DeepP)
    [] k = "members" -> EncMembers(s, DeepP)
    [] k = "geom" -> EncGeom(s, DeepP)
    [] k = "plh" -> EncPLH(s)
    [] OTHER -> EncRecord(k, s)
Dec(k, b, i, s) ==
  CASE k = "refs" -> DecRefList(b, i, DeepP)
    [] k = "lls" -> DecLLList(b, i)
    [] k = "mixed" -> DecMixed(b, i, DeepP)
    [] k = "bits" -> DecBits(b, i)
    [] k = "tags" -> DecTags(b, i, DeepP)
    [] k = "members" -> DecMembers(b, i, DeepP)
    [] k = "geom" -> DecGeom(b, i, DeepP)
    [] k = "plh" -> DecPLH(b, i)
    [] OTHER -> DecRecord(k, b, i, s)

\* ------------------------------------------------------------------ shapes
RefsOver(T, V) == {[tns |-> t, v |-> v] : t \in T, v \in V}
DeepNs == {DeepP, 101, POther}
RefShapes == Seqs(RefsOver(DeepNs, Word), Min2(MaxLen, 2)) \cup (IF MaxLen >= 3 THEN [1..3 -> RefsOver(DeepNs, Words3)] ELSE {})
LLShapes == Seqs(LLC, MaxLen)
MixEls == {[r |-> TRUE, tns |-> t, v |-> v] : t \in DeepNs, v \in MixWords}
          \cup {[r |-> FALSE, tns |-> 0, v |-> c] : c \in {1, 3, 4}}
MixShapes == Seqs(MixEls, MaxLen)
BitLens == {0, 1, 2, 7, 8, 9, 15, 16, 17}
BitShapes == UNION {{[j \in 1..n |-> FALSE], [j \in 1..n |-> TRUE]} \cup {[j \in 1..n |-> j = k] : k \in 1..n}
                    \cup {[j \in 1..n |-> j % 2 = 0]} : n \in BitLens}

HiWord == M - 2       \* the class with the top bit set that is not all ones (bit63)
SmallWord == 2
TwoWords == {SmallWord, HiWord}
TagVal(t, sc, l) == [t |-> t, s |-> sc, l |-> l]
RefEl(T, V) == {[r |-> TRUE, tns |-> t, v |-> v] : t \in T, v \in V}
LLEl(Cs) == {[r |-> FALSE, tns |-> 0, v |-> c] : c \in Cs}
TagValsFor(T) ==
  {TagVal("str", v, <<>>) : v \in {0, SmallWord, M - 3}}        \* the harness caps string ids below 2^62
  \cup {TagVal("pt", c, <<>>) : c \in {1, 4}}
  \cup {TagVal("lls", 0, l) : l \in Seqs(LLEl({1, 3}), 2)}
  \cup {TagVal("refs", 0, l) : l \in Seqs(RefEl(T, TwoWords), 2)}
  \cup {TagVal("mixed", 0, l) : l \in Seqs(RefEl(T, {SmallWord}) \cup LLEl({1}), 2)}
WithKey(vals, keys) == {[k |-> k, t |-> v.t, s |-> v.s, l |-> v.l] : k \in keys, v \in vals}
TagShapes == Seqs(WithKey(TagValsFor({DeepP, POther}), {1}), 1)
             \cup {<<a, b>> : a \in WithKey(TagValsFor({DeepP}), {0}), b \in WithKey(TagValsFor({DeepP}), {M - 3})}
MemberShapes == Seqs({[ty |-> ty, role |-> ro, tns |-> t, v |-> v] :
                        ty \in {0, 3}, ro \in {0, M - 3}, t \in DeepNs, v \in MixWords}, 2)

\* tags inside records: string / point / lat-lng list values anywhere; reference and mixed values (the path
\* tag) only in path records, whose tag primary is the point namespace
RecTagVals(T) == {TagVal("str", SmallWord, <<>>), TagVal("pt", 1, <<>>), TagVal("lls", 0, <<[r |-> FALSE, tns |-> 0, v |-> 1], [r |-> FALSE, tns |-> 0, v |-> 3]>>)}
                 \cup (IF T = {} THEN {} ELSE
                       {TagVal("refs", 0, <<e>>) : e \in RefEl(T, TwoWords)}
                       \cup {TagVal("refs", 0, <<[r |-> TRUE, tns |-> PPoint, v |-> SmallWord], [r |-> TRUE, tns |-> PPoint, v |-> HiWord]>>),
                             TagVal("mixed", 0, <<[r |-> TRUE, tns |-> PPoint, v |-> SmallWord], [r |-> FALSE, tns |-> 0, v |-> 1],
                                                  [r |-> TRUE, tns |-> POther, v |-> HiWord]>>)})
RecTags(T) == Seqs(WithKey(RecTagVals(T), {1}), 1)
              \cup {<<[k |-> 1, t |-> "str", s |-> 0, l |-> <<>>], b>> : b \in WithKey(RecTagVals(T), {2})}
RecRefs(T) == Seqs(RefsOver(T, TwoWords), RecLen)

\* split positions: strictly increasing positions inside 1..n-1
Splits(n) == {s \in Seqs(1..(n - 1), n - 1) : \A i \in 1..(Len(s) - 1) : s[i] < s[i + 1]}
GeomRefShapes(T) == UNION {{[e |-> 0, offs |-> o, paths |-> p] : o \in Splits(Len(p))} :
                           p \in (Seqs(RefsOver(T, TwoWords), GeomLen) \ {<<>>})}
PolyLLs == {[loops |-> lo, pts |-> p] : lo \in {<<>>, <<2>>}, p \in {<<>>, <<1, 3, 4>>, <<4, 1, 3, 5>>}}
GeomLLShapes == {[e |-> 1, polys |-> ps] : ps \in Seqs(PolyLLs, GeomLen)}
PolyMixed(T) == {[refs |-> r, loops |-> <<>>, pts |-> <<>>] : r \in [1..1 -> RefsOver(T, TwoWords)] \cup [1..2 -> RefsOver(T, {SmallWord})]}
                \cup {[refs |-> <<>>, loops |-> p.loops, pts |-> p.pts] : p \in {q \in PolyLLs : Len(q.pts) # 4}}
GeomMixedShapes(T) == {[e |-> 2, polys |-> ps] : ps \in Seqs(PolyMixed(T), Min2(GeomLen, 2))}
GeomShapes(T) == GeomRefShapes(T) \cup GeomLLShapes \cup GeomMixedShapes(T)
\* a smaller geometry set for use inside area records
RecGeoms == {g \in GeomRefShapes({PPath, POther}) : Len(g.paths) <= 2}
            \cup {[e |-> 1, polys |-> ps] : ps \in Seqs({[loops |-> <<2>>, pts |-> <<1, 3, 4>>], [loops |-> <<>>, pts |-> <<>>]}, 2)}
            \cup {[e |-> 2, polys |-> ps] : ps \in Seqs({[refs |-> <<[tns |-> PPath, v |-> SmallWord], [tns |-> POther, v |-> HiWord]>>, loops |-> <<>>, pts |-> <<>>],
                                                       [refs |-> <<>>, loops |-> <<2>>, pts |-> <<1, 3, 4>>]}, 2)}
RecMembers(P) == Seqs({[ty |-> ty, role |-> SmallWord, tns |-> t, v |-> v] : ty \in {1, 2}, t \in {P, PRelation, POther}, v \in TwoWords}, 1)

\* token classes: 0 empty, 1 short, 2 multi-byte runes, 3 long (> 255 bytes), 4..7 lengths 127, 128, 255, 256 bytes (the
\* uvarint length prefix changes width at 128; a one-byte raw length would end at 255)
PLHShapes == {[tok |-> t, n |-> n, nss |-> l] : t \in 0..7, n \in {0, SmallWord, HiWord},
              l \in Seqs({[tns |-> 1, idx |-> 0], [tns |-> 2, idx |-> SmallWord], [tns |-> 4, idx |-> M - 3]}, 3)}

ShapesOf(k) ==
  CASE k = "refs" -> RefShapes
    [] k = "lls" -> LLShapes
    [] k = "mixed" -> MixShapes
    [] k = "bits" -> BitShapes
    [] k = "tags" -> TagShapes
    [] k = "members" -> MemberShapes
    [] k = "geom" -> GeomShapes(DeepNs)
    [] k = "plh" -> PLHShapes
    [] k = "commonpoint" -> {[tags |-> t, path |-> r] : t \in RecTags({}), r \in RefsOver({PPath, PPoint, POther}, {0, SmallWord, HiWord})}
    [] k = "fullpoint" -> {[tags |-> t, paths |-> p, rels |-> r] : t \in RecTags({}),
                           p \in RecRefs({PPath, PRelation, POther}), r \in RecRefs({PRelation, PPath, POther})}
    [] k = "path" -> {[tags |-> t, areas |-> a, rels |-> r] : t \in RecTags({PPoint, PArea, POther}),
                      a \in RecRefs({PArea, PRelation, POther}), r \in RecRefs({PRelation, PArea, POther})}
    [] k = "area" -> {[tags |-> t, geom |-> g, rels |-> r] : t \in RecTags({}), g \in RecGeoms,
                      r \in RecRefs({PRelation, PPath, POther})}
    [] k = "relation" -> UNION {{[primary |-> p, tags |-> t, members |-> m, rels |-> r] : t \in RecTags({}),
                                 m \in RecMembers(p), r \in RecRefs({PRelation, p, POther})} : p \in {PPath, PPoint}}

\* ------------------------------------------------------------------ the codec as a (two-step) state machine
None == [st |-> "none"]
Init == /\ kind \in Kinds
        /\ shape \in ShapesOf(kind)
        /\ \/ pre = 0 /\ post = 0               \* alone in the buffer,
           \/ pre = 3 /\ post = 2               \* or at a non-zero offset and followed by other cells
        /\ res = None
\* Encode and Decode in one step (the buffer is not kept in the state: it is a function of shape, pre, post)
Decode == /\ res = None
          /\ LET e == Enc(kind, shape)
                 b == Garbage(pre) \o e \o Garbage(post)
                 d == Dec(kind, b, pre + 1, shape)
             IN res' = [st |-> "done", v |-> d.v, n |-> d.n - (pre + 1), wrote |-> Len(e)]
          /\ UNCHANGED <<kind, shape, pre, post>>
Next == Decode
Spec == Init /\ [][Next]_vars

RoundTrip == res.st = "done" => res.v = shape          \* decodes to the value that was encoded
Framing == res.st = "done" => res.n = res.wrote        \* consumes exactly the cells that were written

\* ------------------------------------------------------------------ export (one CASE line per shape)
Emit == (pre = 0 /\ post = 0) => PrintT(<<"CASE", ToJson([kind |-> kind, shape |-> shape, cells |-> res'.wrote])>>)

\* Namespace tables and token maps are not record codecs of the Encode/Decode form above (a table built from a
\* set of namespaces and carried in the header proto; a hash table written through a ByteArraysBuilder).  For
\* them the spec contributes the enumeration of shapes only; the oracle is stated in the harness:
\*   namespace table: Decode(Encode(ns)) = ns, code 0 = invalid, codes order like the names, the same codes
\*                    after FillProto / WriteProto / UnmarshalProto / FillFromProto;
\*   token map:       every (token, index) added is among FindPossibleIndices(token), nothing else comes out,
\*                    Unmarshal consumes what Write wrote.
NsRanks == 0..5
NsTableShapes == {s \in Seqs(NsRanks, 4) : \A i, j \in DOMAIN s : i # j => s[i] # s[j]}      \* input order matters: the table sorts
TokenMapShapes == [n : {0, 1, 2, 3, 4, 5, 7, 12, 13, 40, 200}, idx : {"seq", "big", "same"}, tokens : {"distinct", "prefix", "dup"}]
ASSUME \A s \in NsTableShapes : PrintT(<<"CASE", ToJson([kind |-> "nstable", shape |-> s, cells |-> 0])>>)
ASSUME \A s \in TokenMapShapes : PrintT(<<"CASE", ToJson([kind |-> "tokenmap", shape |-> s, cells |-> 0])>>)
====
