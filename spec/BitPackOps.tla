---- MODULE BitPackOps ----
(* Operators shared by the modules that `vh-bitpack translate` generates from the Go source (property C10).

   A Go integer is represented by its mathematical value over the unbounded integers; two's complement
   wrap-around is written out as  e % 2^W  (unsigned) or  ((e + 2^(W-1)) % 2^W) - 2^(W-1)  (signed),
   x << k as (x * 2^k) wrapped, x >> k as floor division by 2^k (arithmetic shift for signed values),
   x & (2^k - 1) as x % 2^k, and a | b as a + b when the translator has shown from known-zero low bits
   and upper bounds that the operands share no bit (a possible overlap of a few bits is written out bit
   by bit).

   TLA+ defines \div and % as floor division and non-negative remainder, and so does the SMT encoding
   that Apalache uses for non-constant operands; Apalache 0.58's constant folder however truncates
   towards zero for a negative constant dividend.  FloorDiv / FloorMod only ever divide a non-negative
   number, so both readings agree and the generated constant formulas (Vectors) mean what they say. *)
EXTENDS Integers

FloorDiv(a, k) == IF a >= 0 THEN a \div k ELSE 0 - (((0 - a) + (k - 1)) \div k)
FloorMod(a, k) == a - k * FloorDiv(a, k)
====
