---- MODULE ShortestPath ----
(* C30 -- graph.ShortestPathSearch (graph/graph.go) finds true shortest distances and routes.

   A street network is a sequence of WAYS over the model points 0..n-1 (DESIGN 4.3: the vertices of a
   regular polygon, so that nothing here is geometry).  A way is [pts, w, kind]: its vertices, an integer
   weight per hop (the harness' Weights implementation reads it from a tag and multiplies by the number
   of hops of a segment) and a kind that stands for the way's tags.  What a kind means to a routing
   profile (usable? one-way?) is transcribed from graph.go (UsableKind / OneWayKind).

   THE DEFINITION: TrueDist = the least fixpoint of Bellman-Ford relaxation over the usable HOPS
   (consecutive vertices of a way, both directions unless one-way).  It does not know about graph nodes,
   segments, queues or limits.

   THE ALGORITHM, as the code does it, one action per step of the code:
     Start   NewShortestPathSearchFromPoint (+ the prologue of ExpandSearchTo)
     Pop     heap.Pop, visited := true, the early stop of ExpandSearchTo, w.Traverse(point)
     Relax   one iteration of the inner loop: visited test, IsUseable, `< maxDistance`, AddOrUpdate
     Finish  the queue is empty
   over the SEGMENTS that World.Traverse derives from the ways (from a vertex along a way to the nearest
   graph node in each direction; graph node = way end or vertex shared by two ways).  The priority queue
   is abstract (Pop takes any entry of least distance), Traverse order is any order.
   BuildRoute/BuildPath is the operator PathTo over the predecessor map.

   TLC checks Correct (algorithm = definition when the search is done, for every tie-break and every
   Traverse order) and prints one CASE per network: the input and the true distances.  The conformance
   harness (harness/cmd/vh-graph) builds every CASE as a real world and runs the real search on it.

   One place where the code differed from the ideal is switchable, so that the model check of the design
   passes and the deviation is still a TLC-produced candidate that the harness runs on the real code:
     OriginTest  = "code": the origin counts as connected only if IsUseable(Segment{path,0,0}) holds, which
                   is false for every one-way path (Last > First fails);  "whole-way": ToSegment(path)
                   (ShortestPathAsCode.cfg; repaired in /repo by fixes/C30-origin-on-oneway-ways.diff).
   Closed ways: Traverse of the real worlds drops one direction at the closing point; the model keeps
   both -- see known/C30.jsonl and fixes/C30-*-traverse-closed-way.diff. *)
EXTENDS Integers, Sequences, FiniteSets, TLC, Json, FiniteSetsExt, SequencesExt

CONSTANTS NPoints,     \* enumerated family: model points 0..NPoints-1
          MaxWays,     \* 1..MaxWays ways per network
          MaxLen,      \* open ways have 2..MaxLen vertices
          ClosedLens,  \* numbers of distinct vertices of closed ways (e.g. {3}); {} = no closed ways
          Ws,          \* weights per hop
          Kinds,       \* way kinds
          Limits,      \* distance limits (exclusive)
          Profiles,    \* routing profiles: "car", "bus", "walk"
          Origins,     \* origins tried
          Modes,       \* subset of {"all", "to"}: ExpandSearch / ExpandSearchTo(every other point on a way)
          OriginTest,  \* "code" | "whole-way"
          Filter,      \* "any" | "closed" (only networks with a closed way)
          Explore,     \* TRUE: run the algorithm; FALSE: only evaluate the definition (large logged networks)
          CaseFile     \* "" = enumerate the family above; otherwise an ndjson file of networks
                       \*  {id, n, ways:[{pts,w,kind}], origin, limit, to, profile, reported} (seeded samples, large
                       \*  networks); reported = what the real search said per point (-1 = not reported), or <<>>

VARIABLES net,      \* the input [n, ways, origin, limit, to, profile] + truth, trav (tabulated by Start)
          phase,    \* "new" | "run" | "done"
          queue,    \* points with an entry in the heap
          known,    \* DOMAIN of byPoint
          dist,     \* byPoint[p].distance (INF when absent or the destination placeholder)
          visited,  \* byPoint[p].visited
          pred,     \* byPoint[p].segment (NoSeg = SegmentInvalid)
          cur,      \* the entry being expanded (-1 = between iterations of the outer loop)
          todo      \* segments of Traverse(cur) not yet looked at
vars == <<net, phase, queue, known, dist, visited, pred, cur, todo>>

INF == 1000000
NoSeg == [way |-> 0, first |-> 0, last |-> 0]
Abs(x) == IF x < 0 THEN -x ELSE x
SetMin(S) == CHOOSE x \in S : \A y \in S : x <= y
SetMax(S) == CHOOSE x \in S : \A y \in S : x >= y

\* ------------------------------------------------------------------ ways, kinds, profiles
\* graph.go: IsPathUsableByCar / IsPathUsableByBus / SimpleHighwayWeights.IsUseable for the tags of each kind
\*   res    #highway=residential                         one     + oneway=yes
\*   busone #highway=residential oneway=yes oneway:bus=no foot    #highway=footway
\*   conn   diagonal=connection                           none    railway=rail (not a highway)
UsableKind(profile, kind) ==
    CASE profile \in {"car", "bus"} -> kind \in {"res", "one", "busone", "conn"}
      [] profile = "walk" -> kind # "none"
\* IsSegmentUseableInThisDirectionByCar / ...ByBus: oneway=yes (and for buses not oneway:bus=no) => Last > First
OneWayKind(profile, kind) ==
    CASE profile = "car" -> kind \in {"one", "busone"}
      [] profile = "bus" -> kind = "one"
      [] profile = "walk" -> FALSE

PointsOf(nt) == 0..(nt.n - 1)
WayIds(nt) == DOMAIN nt.ways
Pts(nt, k) == nt.ways[k].pts
\* a segment is [way, first, last]: positions first -> last (1-based here, 0-based in the code) on a way
SegFrom(nt, s) == Pts(nt, s.way)[s.first]
SegTo(nt, s) == Pts(nt, s.way)[s.last]
SegUsable(nt, s) == /\ UsableKind(nt.profile, nt.ways[s.way].kind)
                    /\ OneWayKind(nt.profile, nt.ways[s.way].kind) => s.last > s.first
SegWeight(nt, s) == nt.ways[s.way].w * Abs(s.last - s.first)

\* ------------------------------------------------------------------ THE DEFINITION
WayHops(nt, k) == UNION {{[way |-> k, first |-> i, last |-> i + 1], [way |-> k, first |-> i + 1, last |-> i]} :
                             i \in 1..(Len(Pts(nt, k)) - 1)}
Hops(nt) == {s \in UNION {WayHops(nt, k) : k \in WayIds(nt)} : SegUsable(nt, s)}

RECURSIVE BellmanFord(_, _, _)
BellmanFord(nt, into, d) ==
    LET d2 == [p \in PointsOf(nt) |->
                 SetMin({d[p]} \cup {d[SegFrom(nt, h)] + SegWeight(nt, h) : h \in {g \in into[p] : d[SegFrom(nt, g)] < INF}})]
    IN IF d2 = d THEN d ELSE BellmanFord(nt, into, d2)

TrueDist(nt) ==
    LET H == Hops(nt)
        into == [p \in PointsOf(nt) |-> {h \in H : SegTo(nt, h) = p}]
    IN BellmanFord(nt, into, [p \in PointsOf(nt) |-> IF p = nt.origin THEN 0 ELSE INF])

\* ------------------------------------------------------------------ the graph every World derives from the ways
OnWay(nt, k, p) == \E i \in DOMAIN Pts(nt, k) : Pts(nt, k)[i] = p
IsNode(nt, p) == \/ \E k \in WayIds(nt) : Pts(nt, k)[1] = p \/ Pts(nt, k)[Len(Pts(nt, k))] = p
                 \/ Cardinality({k \in WayIds(nt) : OnWay(nt, k, p)}) > 1
Nodes(nt) == {p \in PointsOf(nt) : IsNode(nt, p)}
\* ingest/basic.go traverse, ingest/compact/world.go fillPathSegments
Traverse(nt, p) ==
    UNION {LET pts == Pts(nt, ki[1])
               i == ki[2]
               fwd == {j \in DOMAIN pts : j > i /\ IsNode(nt, pts[j])}
               bwd == {j \in DOMAIN pts : j < i /\ IsNode(nt, pts[j])}
           IN (IF fwd # {} THEN {[way |-> ki[1], first |-> i, last |-> SetMin(fwd)]} ELSE {}) \cup
              (IF bwd # {} THEN {[way |-> ki[1], first |-> i, last |-> SetMax(bwd)]} ELSE {})
           : ki \in {x \in UNION {{<<k, i>> : i \in DOMAIN Pts(nt, k)} : k \in WayIds(nt)} : Pts(nt, x[1])[x[2]] = p}}

\* ------------------------------------------------------------------ the family of inputs
Points == 0..(NPoints - 1)
Distinct(s, m) == \A i, j \in 1..m : i # j => s[i] # s[j]
\* closed ways are given counter-clockwise (= cyclically increasing on the polygon): clockwise closed
\* paths are inverted or rejected by the world builders, which is not this property's business
CyclicInc(s, m) == Cardinality({i \in 1..m : s[i] > s[(i % m) + 1]}) = 1
OpenShapes == UNION {{s \in [1..l -> Points] : Distinct(s, l)} : l \in 2..MaxLen}
ClosedShapes == UNION {{s \in [1..(m + 1) -> Points] : s[m + 1] = s[1] /\ Distinct(s, m) /\ CyclicInc(s, m)} : m \in ClosedLens}
NeverOneWay(kind) == \A pr \in Profiles : ~OneWayKind(pr, kind)
NeverUsable(kind) == \A pr \in Profiles : ~UsableKind(pr, kind)
WayUniverse ==
    {[pts |-> s, w |-> w, kind |-> kind] : s \in OpenShapes \cup ClosedShapes, w \in Ws, kind \in Kinds}
CanonWay(wy) == /\ NeverUsable(wy.kind) => wy.w = SetMin(Ws)        \* the weight of an unusable way is irrelevant
                /\ (NeverOneWay(wy.kind) /\ wy.pts[1] # wy.pts[Len(wy.pts)]) => wy.pts[1] < wy.pts[Len(wy.pts)]
Universe == {wy \in WayUniverse : CanonWay(wy)}
WaySeqs == UNION {{SetToSeq(S) : S \in kSubset(k, Universe)} : k \in 1..MaxWays}
OnSomeWay(ways, p) == \E k \in DOMAIN ways : \E i \in DOMAIN ways[k].pts : ways[k].pts[i] = p

EnumeratedInputs ==
    {[n |-> NPoints, ways |-> ws, origin |-> o, limit |-> l, to |-> t, profile |-> pr] :
        ws \in WaySeqs, o \in Origins, l \in Limits, pr \in Profiles,
        t \in (IF "all" \in Modes THEN {-1} ELSE {}) \cup (IF "to" \in Modes THEN Points ELSE {})}
IsClosed(wy) == wy.pts[1] = wy.pts[Len(wy.pts)]
ValidInput(nt) == /\ OnSomeWay(nt.ways, nt.origin)
                  /\ Filter = "closed" => \E k \in DOMAIN nt.ways : IsClosed(nt.ways[k])
                  /\ nt.to # -1 => (nt.to # nt.origin /\ OnSomeWay(nt.ways, nt.to))
FileInputs == LET f == ndJsonDeserialize(CaseFile) IN {f[i] : i \in DOMAIN f}
Inputs == IF CaseFile = "" THEN {nt \in EnumeratedInputs : ValidInput(nt)} ELSE FileInputs

\* the true distances are filled in by Start (so that TLC's workers share the work; Init is sequential)
NoTruth(nt) == [n |-> nt.n, ways |-> nt.ways, origin |-> nt.origin, limit |-> nt.limit, to |-> nt.to,
                profile |-> nt.profile, truth |-> <<>>, trav |-> <<>>,
                id |-> IF "id" \in DOMAIN nt THEN nt.id ELSE 0,
                rep |-> IF "reported" \in DOMAIN nt THEN nt.reported ELSE <<>>]
\* what the harness gets: the input, the true distances (-1 = unreachable) and the graph nodes
CaseOf(nt) == [id |-> nt.id, n |-> nt.n, ways |-> nt.ways, origin |-> nt.origin, limit |-> nt.limit, to |-> nt.to, profile |-> nt.profile,
               truth |-> [i \in 1..nt.n |-> IF nt.truth[i - 1] = INF THEN -1 ELSE nt.truth[i - 1]],
               nodes |-> SetToSeq(Nodes(nt))]

\* ------------------------------------------------------------------ trace validation (binding B)
\* nt.rep is what the real search reported for the logged network nt: accepted iff it is what the
\* definition says (same conditions as Sound/Complete below, routes are judged by the harness)
RepOK(nt, p) == LET r == nt.rep[p + 1]
                IN /\ r # -1 => (r = nt.truth[p] /\ r < nt.limit)
                   /\ (p # nt.origin /\ IsNode(nt, p) /\ nt.truth[p] < nt.limit) => r # -1
TraceAccepted(nt) == IF nt.to = -1 THEN \A p \in PointsOf(nt) : RepOK(nt, p) ELSE RepOK(nt, nt.to)

\* ------------------------------------------------------------------ THE ALGORITHM
Init == /\ net \in {NoTruth(nt) : nt \in Inputs}
        /\ phase = "new" /\ queue = {} /\ known = {} /\ visited = {} /\ cur = -1 /\ todo = {}
        /\ dist = [p \in PointsOf(net) |-> INF]
        /\ pred = [p \in PointsOf(net) |-> NoSeg]

\* NewShortestPathSearchFromPoint: `weights.IsUseable(b6.Segment{Feature: p})` for a path referencing the origin
Connected == \E k \in WayIds(net) :
                /\ OnWay(net, k, net.origin)
                /\ IF OriginTest = "code" THEN SegUsable(net, [way |-> k, first |-> 1, last |-> 1])
                                          ELSE UsableKind(net.profile, net.ways[k].kind)
Start == /\ phase = "new"
         /\ phase' = IF Explore THEN "run" ELSE "skip"
         /\ net' = [net EXCEPT !.truth = TrueDist(net), !.trav = [p \in PointsOf(net) |-> Traverse(net, p)]]
         /\ PrintT(<<"CASE", ToJson(CaseOf(net'))>>)
         /\ net.rep # <<>> => PrintT(<<"TRACE", ToJson([id |-> net.id, accepted |-> TraceAccepted(net')])>>)
         /\ LET q0 == IF Connected THEN {net.origin} ELSE {}
                dst == IF net.to = -1 THEN {} ELSE {net.to}     \* ExpandSearchTo pushes the destination at +Inf
            IN /\ queue' = q0 \cup dst
               /\ known' = q0 \cup dst
               /\ dist' = [p \in PointsOf(net) |-> IF p \in q0 THEN 0 ELSE INF]
         /\ UNCHANGED <<visited, pred, cur, todo>>

Pop(p) == /\ phase = "run" /\ cur = -1 /\ p \in queue
          /\ \A q \in queue : dist[p] <= dist[q]
          /\ queue' = queue \ {p}
          /\ visited' = visited \cup {p}
          /\ IF net.to # -1 /\ (p = net.to \/ dist[net.to] < dist[p])
             THEN phase' = "done" /\ UNCHANGED <<cur, todo>>                  \* early stop of ExpandSearchTo
             ELSE /\ phase' = phase
                  /\ todo' = net.trav[p]                                  \* = Traverse(net, p), tabulated by Start
                  /\ cur' = IF todo' = {} THEN -1 ELSE p
          /\ UNCHANGED <<net, known, dist, pred>>

Relax(s) == /\ phase = "run" /\ cur # -1 /\ s \in todo
            /\ todo' = todo \ {s}
            /\ cur' = IF todo' = {} THEN -1 ELSE cur
            /\ LET q == SegTo(net, s)
                   nd == dist[cur] + SegWeight(net, s)
               IN IF q \notin visited /\ SegUsable(net, s) /\ nd < net.limit
                  THEN IF q \in known                                        \* AddOrUpdate
                       THEN IF dist[q] > nd
                            THEN dist' = [dist EXCEPT ![q] = nd] /\ pred' = [pred EXCEPT ![q] = s] /\ UNCHANGED <<queue, known>>
                            ELSE UNCHANGED <<dist, pred, queue, known>>
                       ELSE /\ known' = known \cup {q} /\ queue' = queue \cup {q}
                            /\ dist' = [dist EXCEPT ![q] = nd] /\ pred' = [pred EXCEPT ![q] = s]
                  ELSE UNCHANGED <<dist, pred, queue, known>>
            /\ UNCHANGED <<net, phase, visited>>

Finish == /\ phase = "run" /\ cur = -1 /\ queue = {}
          /\ phase' = "done"
          /\ UNCHANGED <<net, queue, known, dist, visited, pred, cur, todo>>
Done == phase \in {"done", "skip"} /\ UNCHANGED vars

Next == Start \/ (\E p \in PointsOf(net) : Pop(p)) \/ (\E s \in todo : Relax(s)) \/ Finish \/ Done
Spec == Init /\ [][Next]_vars

\* ------------------------------------------------------------------ BuildPath / BuildRoute
RECURSIVE PathTo(_, _)
PathTo(p, fuel) == IF pred[p] = NoSeg \/ fuel = 0 THEN <<>>
                   ELSE Append(PathTo(SegFrom(net, pred[p]), fuel - 1), pred[p])
RECURSIVE Cost(_)
Cost(r) == IF r = <<>> THEN 0 ELSE SegWeight(net, r[Len(r)]) + Cost(SubSeq(r, 1, Len(r) - 1))
RouteOK(p) == LET r == PathTo(p, net.n + 1)
              IN IF r = <<>> THEN p = net.origin
                 ELSE /\ SegFrom(net, r[1]) = net.origin
                      /\ SegTo(net, r[Len(r)]) = p
                      /\ \A i \in 1..(Len(r) - 1) : SegTo(net, r[i]) = SegFrom(net, r[i + 1])
                      /\ \A i \in 1..Len(r) : SegUsable(net, r[i])
                      /\ Cost(r) = dist[p]

\* ------------------------------------------------------------------ algorithm = definition
Reported(p) == dist[p] < INF
\* every reported point: the true distance, under the limit, with a route of that cost
Sound(p) == Reported(p) => dist[p] = net.truth[p] /\ dist[p] < net.limit /\ RouteOK(p)
\* every graph node under the limit is reported (the origin itself is not demanded: an origin that is on
\* no usable way reports nothing at all)
Complete(p) == (p # net.origin /\ IsNode(net, p) /\ net.truth[p] < net.limit) => Reported(p)

Correct == phase = "done" =>
             IF net.to = -1 THEN \A p \in PointsOf(net) : Sound(p) /\ Complete(p)
                            ELSE Sound(net.to) /\ Complete(net.to)
TypeOK == /\ queue \subseteq known /\ visited \subseteq known
          /\ \A p \in PointsOf(net) : p \notin known => dist[p] = INF /\ pred[p] = NoSeg
          /\ cur = -1 => todo = {}
\* Dijkstra's invariant: a visited point never changes again, and carries its final (true) distance
Settled == [][\A p \in visited : dist'[p] = dist[p] /\ pred'[p] = pred[p]]_vars
====
