---- MODULE MCStaticWorld ----
(* Scenarios for StaticWorld: per-ID alternatives whose product is the set of sources TLC enumerates. *)
EXTENDS StaticWorld

CONSTANT Scenario

MCKeys == {"#s", "@t", "n"}
MCVals == {"x", "y"}
\* P50 stands for a point in a SECOND namespace that sorts before the first one while its numeric value is larger
\* (harness/obs: names numbered from 50): ID order is (type, namespace, value), not (type, value)
MCIDOrder == IF Scenario = 3 THEN <<"P0", "P1", "P2", "P3", "W1", "W2", "A1", "A2", "A3", "R1">>
             ELSE IF Scenario = 2 THEN <<"P50", "P0", "P1", "P2", "P3", "W1", "W2", "A1", "R1", "C1">>
             ELSE IF Scenario = 4 THEN <<"P0", "P1", "P2", "P80", "P81", "W1", "W2", "A1", "R1">>   \* P80, P81: OSM nodes (sort last)
             ELSE <<"P0", "P1", "P2", "P3", "W1", "W2", "A1", "R1", "C1">>
T(s, t, n) == [k \in MCKeys |-> IF k = "#s" THEN s ELSE IF k = "@t" THEN t ELSE n]
NT == T("-", "-", "-")

\* scenario 1: sources with valid and invalid features of every class (C01 C02 C03 C17 C36 C37)
Alt1 == [ P0 |-> {Pt(0, NT), Pt(0, T("x", "-", "-"))},
          P1 |-> {Pt(1, NT)},
          P2 |-> {Pt(2, T("-", "-", "y")), Absent},
          P3 |-> {Pt(3, T("-", "x", "-"))},
          W1 |-> {Absent,
                  Pa(<<"P0", "P1">>, T("x", "-", "-")),                 \* open
                  Pa(<<"P0", "P1", "P2", "P0">>, NT),                   \* closed, counter-clockwise (needs P2)
                  Pa(<<"P0", "P2", "P1", "P0">>, T("-", "-", "x")),     \* closed, clockwise: kept reversed
                  Pa(<<"P0">>, NT)},                                    \* one point: dropped
          W2 |-> {Absent,
                  Pa(<<"P1", "P3">>, T("-", "-", "y")),
                  Pa(<<"P1", "P2", "P3", "P1">>, T("y", "-", "-"))},
          A1 |-> {Absent,
                  Ar(<< <<"W1">> >>, T("y", "-", "-")),
                  Ar(<< <<"W1">>, <<"W2">> >>, T("-", "x", "x"))},
          R1 |-> {Absent,
                  Re(<<"A1", "P0">>, T("-", "x", "-")),
                  Re(<<"W1", "W2">>, T("x", "-", "-"))},
          C1 |-> {Absent, Co(<<"P0", "W1">>, T("-", "-", "x"))} ]
NoUpper == [id \in {MCIDOrder[i] : i \in DOMAIN MCIDOrder} |-> {Absent}]

\* scenario 2: a fixed family of bases, every combination of upper-layer features (C16)
Alt2 == [ P50 |-> {Absent, Pt(6, T("x", "-", "-"))},
          P0 |-> {Pt(0, T("x", "-", "-"))},
          P1 |-> {Pt(1, NT)},
          P2 |-> {Pt(2, T("-", "-", "y"))},
          P3 |-> {Absent, Pt(3, T("-", "x", "-"))},
          W1 |-> {Pa(<<"P0", "P1", "P2", "P0">>, T("-", "-", "x")), Pa(<<"P0", "P1">>, T("x", "-", "-"))},
          W2 |-> {Absent, Pa(<<"P1", "P2">>, T("y", "-", "-"))},
          A1 |-> {Absent, Ar(<< <<"W1">> >>, T("y", "-", "-"))},
          R1 |-> {Re(<<"W1", "P0">>, T("-", "x", "-"))},
          C1 |-> {Absent} ]
Upper2 == [ P50 |-> {Absent, Pt(7, T("x", "-", "y"))},
            P0 |-> {Absent, Pt(0, T("y", "-", "x")), Pt(4, T("x", "x", "-"))},
            P1 |-> {Absent, Pt(1, T("x", "-", "-"))},
            P2 |-> {Absent},
            P3 |-> {Absent, Pt(5, NT)},
            W1 |-> {Absent, Pa(<<"P0", "P1">>, T("y", "-", "-"))},      \* needs P0 and P1 in the upper layer
            W2 |-> {Absent},
            A1 |-> {Absent},
            R1 |-> {Absent, Re(<<"P0">>, T("x", "-", "y"))},
            C1 |-> {Absent, Co(<<"P0">>, T("x", "-", "-"))} ]

\* scenario 3: several areas over shared paths (sources are also fed to the builders in reverse ID order, so that
\* areas arrive before their paths and wait in the validator's queue)
Alt3 == [ P0 |-> {Pt(0, NT)}, P1 |-> {Pt(1, T("x", "-", "-"))}, P2 |-> {Pt(2, NT)}, P3 |-> {Pt(3, NT)},
          W1 |-> {Pa(<<"P0", "P1", "P2", "P0">>, NT)},
          W2 |-> {Absent, Pa(<<"P1", "P2", "P3", "P1">>, T("-", "-", "y")), Pa(<<"P1", "P3">>, NT)},
          A1 |-> {Ar(<< <<"W1">> >>, T("y", "-", "-"))},
          A2 |-> {Absent, Ar(<< <<"W1">> >>, T("-", "x", "-")), Ar(<< <<"W2">> >>, T("x", "-", "-"))},
          A3 |-> {Absent, Ar(<< <<"W2">> >>, T("-", "-", "x")), Ar(<< <<"W1">>, <<"W2">> >>, T("y", "x", "-"))},
          R1 |-> {Absent, Re(<<"A2", "A1", "P1">>, T("-", "x", "-"))} ]
\* scenario 4: paths with mixed geometry (point references next to raw locations "L<n>") whose references come from
\* two namespaces in every order (P80, P81 are OSM nodes: the compact encoder codes references to them as deltas and all
\* other references verbatim), closed mixed loops
\* under an area, relation members from two namespaces (C01 C02 C36)
Alt4 == [ P80 |-> {Pt(6, NT), Pt(6, T("x", "-", "-"))},
          P81 |-> {Absent, Pt(7, NT)},
          P0 |-> {Pt(0, NT)},
          P1 |-> {Pt(1, T("-", "-", "y"))},
          P2 |-> {Absent, Pt(2, NT)},
          W1 |-> {Pa(<<"P0", "P80", "L4", "P1">>, T("x", "-", "-")),       \* first namespace, second, location, first again
                  Pa(<<"P80", "P0", "L4", "P81", "P1">>, NT),               \* alternating: an OSM node after a reference of the other namespace (needs P81)
                  Pa(<<"L3", "P1", "P0">>, T("-", "-", "x")),               \* location first
                  Pa(<<"P0", "P1", "P80">>, NT),                            \* references only, two namespaces
                  Pa(<<"L3", "L4", "L5">>, T("y", "-", "-")),               \* locations only
                  Pa(<<"P1", "L2", "P0", "L9", "P2", "P80">>, NT)},         \* several switches (needs P2)
          W2 |-> {Absent,
                  Pa(<<"P0", "L3", "P80", "P0">>, T("-", "x", "-")),        \* closed mixed loop 0,3,6: counter-clockwise
                  Pa(<<"P0", "P80", "L3", "P0">>, NT),                      \* 0,6,3: clockwise, kept reversed
                  Pa(<<"P80", "L8", "P0", "P80">>, NT)},                    \* 6,8,0: counter-clockwise, starts in the second namespace
          A1 |-> {Absent, Ar(<< <<"W2">> >>, T("y", "-", "-"))},
          R1 |-> {Absent, Re(<<"P80", "W1", "P0", "P81">>, T("-", "x", "-"))} ]
MCAlternatives == IF Scenario = 1 THEN Alt1 ELSE IF Scenario = 3 THEN Alt3 ELSE IF Scenario = 4 THEN Alt4 ELSE Alt2
MCUppers == IF Scenario = 2 THEN Upper2 ELSE NoUpper

Tg(k, v) == [k |-> "tagged", key |-> k, val |-> v]
Ky(k) == [k |-> "keyed", key |-> k]
Ty(t, q) == [k |-> "typed", t |-> t, q |-> q]
MCQueries == [ all_          |-> [k |-> "all"],
               tagged_sx     |-> Tg("#s", "x"),
               tagged_sy     |-> Tg("#s", "y"),
               keyed_s       |-> Ky("#s"),
               keyed_t       |-> Ky("@t"),
               typedP_keyed  |-> Ty("P", Ky("#s")),
               typedA_tagged |-> Ty("A", Tg("#s", "y")),
               allTypedW_    |-> Ty("W", [k |-> "all"]),
               allTypedR_    |-> Ty("R", [k |-> "all"]),
               and_st        |-> [k |-> "and", qs |-> <<Ky("#s"), Ky("@t")>>],
               or_st         |-> [k |-> "or", qs |-> <<Tg("#s", "x"), Ky("@t")>>],
               or_nested     |-> [k |-> "or", qs |-> <<Ty("P", Tg("#s", "y")), [k |-> "and", qs |-> <<Ky("@t"), Ty("R", Ky("@t"))>>]>>] ]
ASSUME PrintT(<<"QUERIES", ToJson(MCQueries)>>)
ASSUME PrintT(<<"KEYS", ToJson(MCKeys)>>)
ASSUME PrintT(<<"IDS", ToJson(MCIDOrder)>>)
====
