---- MODULE StaticWorld ----
(* Worlds that are built once from a source and then only read: ingest.BasicWorldBuilder, BasicMutableWorld
   filled from a source, compact.BuildInMemory + NewWorldFromData (one file or several merged files), and
   ingest.NewOverlayWorld(upper, base).

   A *source* is a map ID -> feature that may contain invalid features.  A build (in the default "drop"
   mode) keeps exactly ValidSubset(source): every point; every path that is valid against the source's
   points (clockwise closed paths are kept with their point order reversed); every area all of whose paths
   are kept and closed with >= 3 points; every relation and collection.  The built world then answers every
   read like the abstract world ValidSubset(source) (World!Den, World!Referrers ...), for any number of
   build goroutines (C36), whether it is held in memory or in compact form (C01, C02), split over several
   index files (C17), and layered under another world (C16).

   TLC enumerates the sources of a scenario (a product of per-ID alternatives) and prints one CASE line per
   source with the expected world and observation; the Go harness builds every case with every world
   implementation and compares (binding A for a stateless spec).                                             *)
EXTENDS World, Json

CONSTANTS Alternatives,   \* [ID -> set of features]: the alternative definitions of each ID (Absent = not in the source)
          Queries,        \* search battery [name -> query]
          Uppers          \* [ID -> set of features]: alternatives for the upper layer of an overlay (C16)

VARIABLES src, upper
vars == <<src, upper>>

\* ---- what a build keeps
CWPath(w, f) == f.kind = "path" /\ Len(f.pts) >= 2 /\ (\A i \in DOMAIN f.pts : Loc(w, f.pts[i]) >= 0)
                /\ ClosedByRef(f) /\ PathLoopClass(w, f) = "cw"
KeptPath(w, f) == ValidPath(w, f) \/ CWPath(w, f)
Normalised(w, f) == IF CWPath(w, f) THEN [f EXCEPT !.pts = Reverse(f.pts)] ELSE f
PathsKept(w) == {id \in PresentIDs(w) : w[id].kind = "path" /\ KeptPath(w, w[id])}
AreaKept(w, f) == \A i \in DOMAIN f.polys : \A j \in DOMAIN f.polys[i] :
                     LET p == f.polys[i][j] IN
                     /\ p \in PathsKept(w) /\ Len(w[p].pts) >= 3
                     /\ Loc(w, w[p].pts[1]) = Loc(w, w[p].pts[Len(w[p].pts)])
Kept(w, id) == LET f == Get(w, id) IN
   CASE f.kind = "absent" -> FALSE
     [] f.kind = "path"   -> KeptPath(w, f)
     [] f.kind = "area"   -> AreaKept(w, f)
     [] OTHER             -> TRUE
ValidSubset(w) == [id \in DOMAIN w |-> IF Kept(w, id) THEN Normalised(w, w[id]) ELSE Absent]
\* sources whose treatment the specification does not pronounce on (self-crossing loops)
SourceUnspecified(w) == \E id \in PresentIDs(w) : Unspecified(w, w[id])

\* ---- layering (ingest.NewOverlayWorld): the upper layer shadows the base, ID by ID
Layered(u, b) == [id \in DOMAIN b |-> IF Present(u, id) THEN u[id] ELSE b[id]]

\* the product of the per-ID alternatives, built ID by ID (a filtered function space would be astronomically large)
RECURSIVE Prod(_, _)
Prod(S, alt) == IF S = {} THEN {[x \in {} |-> Absent]}
                ELSE LET id == CHOOSE x \in S : TRUE IN
                     {Put(w, id, f) : w \in Prod(S \ {id}, alt), f \in alt[id]}
Sources == Prod(IDs, Alternatives)
UpperSources == Prod(IDs, Uppers)

OfType(S, t) == {r \in S : TypeOf(r) = t}
Obs(w) == LET refs == [id \in IDs |-> Referrers(w, id)] IN
          [search |-> [n \in DOMAIN Queries |-> Search(w, Queries[n])],
           each   |-> Sorted(PresentIDs(w)),
           allun  |-> Sorted(AllUnspecified(w)),
           refs   |-> [id \in IDs |-> Sorted(refs[id])],
           areas  |-> [id \in IDs |-> Sorted(OfType(refs[id], "A"))],
           rels   |-> [id \in IDs |-> Sorted(OfType(refs[id], "R"))],
           colls  |-> [id \in IDs |-> Sorted(OfType(refs[id], "C"))]]

Case(s, u) == LET b == ValidSubset(s) uu == ValidSubset(u) IN
   [src |-> s, eff |-> b, obs |-> Obs(b),
    upper |-> u, ueff |-> uu,
    layered |-> Layered(uu, b), lobs |-> Obs(Layered(uu, b)),
    dropped |-> Sorted({id \in PresentIDs(s) : ~Kept(s, id)})]

Init == /\ src \in Sources /\ upper \in UpperSources
        /\ ~SourceUnspecified(src) /\ ~SourceUnspecified(upper)
        /\ PrintT(<<"CASE", ToJson(Case(src, upper))>>)
Next == UNCHANGED vars
Spec == Init /\ [][Next]_vars

\* ---- design properties checked by TLC on every enumerated source
BuildIsValid == AllValid(ValidSubset(src))                      \* C37: what a build keeps is valid
BuildIdempotent == ValidSubset(ValidSubset(src)) = ValidSubset(src)
LayeredShadows == LET b == ValidSubset(src) u == ValidSubset(upper) l == Layered(u, b) IN
                  \A id \in IDs : (Present(u, id) => l[id] = u[id]) /\ (~Present(u, id) => l[id] = b[id])
SearchNoDuplicates == \A n \in DOMAIN Queries : LET r == Search(ValidSubset(src), Queries[n]) IN
                         \A i, j \in DOMAIN r : i < j => r[i] # r[j]
====
