\* reserve/write containers, thorough: <= 4 entries, 2 tags; reservations in any order up to 3 entries, in entry order beyond
SPECIFICATION Spec
CONSTANTS
  Kind = "kv"
  MaxEntries = 4
  MaxKeys = 3
  Tags = {0, 1}
  Classes = {"-"}
  FreeReserveUpTo = 3
INVARIANTS TypeOK NoDuplicates ReservedBeforeWritten Lossless
PROPERTY PhasesInOrder
ACTION_CONSTRAINT Emit
CHECK_DEADLOCK FALSE
