\* trace validation of vh-spatial pred output (trace.ndjson is placed next to the spec by the check)
INIT TInit
NEXT TNext
POSTCONDITION AllRead
CHECK_DEADLOCK FALSE
