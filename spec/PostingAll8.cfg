SPECIFICATION Spec
CONSTANTS
  Keys = {1, 2, 3, 4, 5, 6, 7, 8}
  Targets = {0, 1, 2, 3, 4, 5, 6, 7, 8, 9}
  Tokens = {"t"}
  RepToken = "t"
  MaxHoles = 0
  Queries <- ListQuery
  ExportQueries <- ListQuery
  Indices <- AllIndices
INVARIANTS TypeOK DenIsDenotation ValueInDenotation
PROPERTIES Monotone NextStrict NoSkip FailsOnlyWhenExhausted Frozen
ACTION_CONSTRAINT Emit
VIEW View
CHECK_DEADLOCK FALSE
