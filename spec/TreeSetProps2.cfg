\* the clauses of the statement over the histories, two iterators (thorough)
SPECIFICATION Spec
CONSTANTS
  K = 3
  T = 1
  I = 2
  MaxToks = 1
INVARIANT TypeOK Complete
PROPERTIES InOrderNoRepeat NeverDeleted AdvanceBound FalseMeansEnd
CHECK_DEADLOCK FALSE
