\* the clauses of the statement over the histories, two iterators and two tokens (thorough)
SPECIFICATION Spec
CONSTANTS
  K = 3
  T = 2
  I = 2
  MaxToks = 2
INVARIANT TypeOK Complete
PROPERTIES InOrderNoRepeat NeverDeleted AdvanceBound FalseMeansEnd
CHECK_DEADLOCK FALSE
