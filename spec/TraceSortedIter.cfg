SPECIFICATION TSpec
CONSTANTS
  Keys = {}
  Targets = {}
  Tokens = {}
  Queries = {}
  Indices = {}
INVARIANTS ValueInDenotation
PROPERTIES Monotone NextStrict
CHECK_DEADLOCK FALSE
