---- MODULE MCMutableWorld ----
(* Model-checking configurations ("scenarios") for MutableWorld.  Each scenario is a small base world plus the
   features / tag edits explored on top of it; the state graph of each is exported and walked on the real
   BasicMutableWorld and MutableOverlayWorld (over several kinds of base).                                   *)
EXTENDS MutableWorld

CONSTANT Scenario

MCKeys == {"#s", "@t", "n"}
MCVals == {"x", "y"}
\* P50: a point in a second namespace that sorts before the first while its value is larger (see MCStaticWorld)
MCIDOrder == CASE Scenario = 1 -> <<"P50", "P0", "P1", "P2", "P3", "W1", "W2", "A1", "R1">>
               [] Scenario = 2 -> <<"P0", "P1", "P4", "W1", "R1", "C1">>
               [] Scenario = 3 -> <<"P0", "P1", "P2", "P3", "P4", "W1", "W2", "W3", "A1", "A2", "R1", "R2", "C1">>
               [] Scenario = 7 -> <<"P0", "P1", "P2", "P3", "P4", "W1", "W2", "W3", "A1", "A2", "R1">>
               [] Scenario = 8 -> <<"P0", "P1", "P2", "P3", "W1", "W2", "W3", "A1", "R1", "C1">>
               [] Scenario = 4 -> <<"P0", "R1", "R2">>
               [] Scenario = 10 -> <<"P0", "P1", "P2", "P3", "W1", "A1">>
               [] OTHER -> <<"P0", "P1", "P2", "P3", "W1">>

T(s, t, n) == [k \in MCKeys |-> IF k = "#s" THEN s ELSE IF k = "@t" THEN t ELSE n]
NT == T("-", "-", "-")
World(fs) == [id \in {MCIDOrder[i] : i \in DOMAIN MCIDOrder} |-> IF id \in DOMAIN fs THEN fs[id] ELSE Absent]
C(id, f) == [id |-> id, f |-> f]

\* ---- scenario 1: tag edits on a point, an area and a feature that is added later (C12, C03, C18)
Base1 == World([P0 |-> Pt(0, T("x", "-", "x")), P1 |-> Pt(1, NT), P2 |-> Pt(2, NT),
                W1 |-> Pa(<<"P0", "P1">>, T("-", "-", "y")),
                W2 |-> Pa(<<"P0", "P1", "P2", "P0">>, NT),
                A1 |-> Ar(<< <<"W2">> >>, T("y", "-", "-")),
                R1 |-> Re(<<"A1", "P0">>, T("-", "x", "-"))])
Cand1 == { C("P3", Pt(3, T("x", "-", "-"))),
           C("P50", Pt(4, T("x", "-", "-"))),      \* an overlay-only match in another namespace: merge order
           C("P0", Pt(0, T("-", "-", "y"))),
           C("A1", Ar(<< <<"W2">> >>, T("-", "x", "-"))),
           C("A1", Ar(<<>>, T("-", "-", "y"))) }       \* an area without polygons (yet)

\* ---- scenario 2: tag edits on a path, a relation and a collection (C12, C03, C18)
Base2 == World([P0 |-> Pt(0, NT), P1 |-> Pt(1, T("-", "x", "-")),
                W1 |-> Pa(<<"P0", "P1">>, T("x", "-", "y")),
                R1 |-> Re(<<"W1", "P0">>, T("x", "-", "-")),
                C1 |-> Co(<<"P0", "W1">>, T("-", "-", "x"))])
Cand2 == { C("W1", Pa(<<"P1", "P0">>, T("y", "-", "-"))),
           C("R1", Re(<<"P1">>, T("-", "-", "y"))),
           C("R1", Re(<<>>, T("x", "-", "-"))),     \* a relation without members (yet), tagged
           C("R1", Re(<<>>, NT)),                    \* ... and untagged
           C("P0", Pt(0, T("-", "-", "x"))) }    \* re-adding a point copies the base features that reference it

\* ---- scenario 3: geometry edits that must be accepted or rejected depending on the current world (C13, C37, C15, C38)
Base3 == World([P0 |-> Pt(0, T("x", "-", "-")), P1 |-> Pt(1, NT), P2 |-> Pt(2, NT),
                W1 |-> Pa(<<"P0", "P1", "P2", "P0">>, NT),
                A1 |-> Ar(<< <<"W1">> >>, T("-", "-", "x")),
                R1 |-> Re(<<"A1", "P0">>, NT)])
Cand3 == { C("W1", Pa(<<"P0", "P1">>, NT)),                          \* opens the path under A1: reject
           C("W1", Pa(<<"P0", "P2", "P1", "P0">>, NT)),              \* clockwise: reject
           C("W1", Pa(<<"P1", "P2", "P0", "P1">>, T("y", "-", "-"))),\* rotated, still ccw: accept
           C("W1", Pa(<<"P0", "P1", "P2", "P3">>, NT)),              \* same length and origin but open: reject (A1)
           C("P1", Pt(3, NT)),                                       \* moves P1: loop 0,3,2 is clockwise unless P2 moved to 4
           C("P1", Pt(1, T("-", "-", "y"))),                         \* same place, new tag: accept
           C("P2", Pt(4, NT)),                                       \* loop 0,1,4 stays ccw: accept (0,3,4 too)
           C("P3", Pt(5, NT)),                                       \* new point
           C("W2", Pa(<<"P0", "P3">>, T("x", "-", "-"))),            \* needs P3
           C("W3", Pa(<<"P1", "P2", "P3", "P1">>, NT)),              \* closed, needs P3; ccw for P1 in {1,3}, P2 in {2,4}, P3 = 5
           C("A2", Ar(<< <<"W3">> >>, T("-", "x", "-"))),            \* needs W3
           C("W3", Pa(<<"P1", "P2">>, NT)),                          \* open: reject once A2 exists
           C("P3", Pt(5, T("y", "-", "-"))),
           C("R2", Re(<<"W1", "P4">>, NT)),                          \* dangling member is allowed
           C("C1", Co(<<"A1", "P1">>, NT)) }

\* ---- scenario 4: reference cycles (C15 termination)
Base4 == World([P0 |-> Pt(0, T("x", "-", "-")), R1 |-> Re(<<"P0">>, NT), R2 |-> Re(<<"R1">>, NT)])
Cand4 == { C("R1", Re(<<"P0", "R2">>, NT)),      \* R1 <-> R2
           C("R1", Re(<<"R1", "P0">>, NT)),      \* self-membership
           C("R1", Re(<<"P0">>, NT)) }           \* back to acyclic

\* ---- scenario 5: snapshots (C14)
Base5 == World([P0 |-> Pt(0, T("x", "-", "-")), P1 |-> Pt(1, NT), P2 |-> Pt(2, NT),
                W1 |-> Pa(<<"P0", "P1">>, T("y", "-", "-"))])
Cand5 == { C("P1", Pt(3, NT)),                                       \* move a point under a path
           C("W1", Pa(<<"P0", "P1", "P2">>, T("y", "-", "-"))),      \* extend the path
           C("P3", Pt(5, T("x", "-", "-"))) }

\* ---- scenario 7: merged changes, all or nothing (C13)
\* a sub-change carries the number g of the part of the MergedChange it belongs to: consecutive sub-changes with the
\* same g form ONE part (an AddFeatures / AddTags / RemoveTags with several items), others separate parts
MAddG(g, id, f) == [op |-> "add", g |-> g, id |-> id, f |-> f, k |-> "", v |-> ""]
MTagG(g, id, k, v) == [op |-> "addtag", g |-> g, id |-> id, f |-> Absent, k |-> k, v |-> v]
MRmG(g, id, k) == [op |-> "rmtag", g |-> g, id |-> id, f |-> Absent, k |-> k, v |-> ""]
Cand7 == { C("P3", Pt(5, NT)),
           \* replacements that pass their own validation and are rejected for a referrer (A1 over W1): the world,
           \* including tag edits pending on the replaced feature, must stay as it was
           C("W1", Pa(<<"P0", "P1">>, NT)),
           C("P1", Pt(3, NT)) }
Merges7 == { \* parts of one item each
             <<MAddG(1, "P3", Pt(5, T("-", "-", "x"))), MAddG(2, "W2", Pa(<<"P0", "P3">>, T("x", "-", "-")))>>,
             <<MAddG(1, "W2", Pa(<<"P0", "P3">>, NT))>>,
             <<MTagG(1, "P0", "n", "x"), MAddG(2, "W1", Pa(<<"P0", "P1">>, NT))>>,
             <<MAddG(1, "P4", Pt(6, T("y", "-", "-"))), MTagG(2, "P2", "#s", "x"), MTagG(3, "W3", "n", "x")>>,
             <<MRmG(1, "P0", "#s"), MAddG(2, "W1", Pa(<<"P0", "P2", "P1", "P0">>, NT))>>,
             <<MAddG(1, "P3", Pt(5, NT)), MAddG(2, "W3", Pa(<<"P1", "P2", "P3", "P1">>, NT)), MAddG(3, "A2", Ar(<< <<"W3">> >>, T("-", "x", "-")))>>,
             <<MAddG(1, "A2", Ar(<< <<"W3">> >>, NT)), MAddG(2, "P3", Pt(5, NT))>>,
             \* ONE part with several items, a later one failing (the merged change has a single part)
             <<MAddG(1, "P4", Pt(6, T("x", "-", "-"))), MAddG(1, "W2", Pa(<<"P0", "P3">>, NT))>>,
             <<MTagG(1, "P0", "n", "x"), MTagG(1, "P4", "n", "x")>>,
             <<MTagG(1, "P1", "#s", "y"), MTagG(1, "W2", "n", "x")>>,
             \* one part with several items, all fine
             <<MAddG(1, "P3", Pt(5, NT)), MAddG(1, "W2", Pa(<<"P0", "P3">>, T("y", "-", "-")))>>,
             \* two parts, the second with a failing second item
             <<MTagG(1, "P2", "n", "y"), MAddG(2, "P4", Pt(6, NT)), MAddG(2, "W1", Pa(<<"P0", "P1">>, NT))>> }
MCMerges == IF Scenario = 7 THEN Merges7 ELSE {}

\* ---- scenario 9: tag edits only (the operations MutableTagsOverlayWorld has) before and after up to two snapshots (C14)

\* ---- scenario 8: features re-added with more / fewer polygons, members, items, tags and points than the stored
\*      version (the grow and shrink branches of MergeFrom), then the caller changes what it passed in (C38, C12)
Base8 == World([P0 |-> Pt(0, T("x", "-", "-")), P1 |-> Pt(1, NT), P2 |-> Pt(2, NT), P3 |-> Pt(5, NT),
                W1 |-> Pa(<<"P0", "P1", "P2", "P0">>, NT),
                W3 |-> Pa(<<"P1", "P2", "P3", "P1">>, NT),
                A1 |-> Ar(<< <<"W1">> >>, T("-", "-", "x")),
                R1 |-> Re(<<"A1", "P0">>, NT)])
Cand8 == { C("A1", Ar(<< <<"W1">>, <<"W3">> >>, T("-", "-", "x"))),      \* grows by a polygon
           C("A1", Ar(<< <<"W3">> >>, T("y", "-", "-"))),                 \* same size, other path
           C("R1", Re(<<"A1", "P0", "P1", "W1">>, T("-", "x", "-"))),     \* grows by two members
           C("R1", Re(<<"W3">>, NT)),                                     \* shrinks
           C("R1", Re(<<"C1">>, T("x", "-", "-"))),                       \* a relation reached only through a collection
           C("P0", Pt(0, T("x", "x", "y"))),                              \* more tags
           C("P0", Pt(0, NT)),                                            \* fewer tags
           C("C1", Co(<<"P0", "W1">>, NT)),                               \* new
           C("C1", Co(<<"P1", "A1", "W3">>, T("-", "-", "y"))),           \* grows
           C("W2", Pa(<<"P0", "P3">>, T("x", "-", "-"))),                 \* new
           C("W2", Pa(<<"P0", "P3", "P2">>, T("x", "-", "-"))) }          \* grows by a point

\* ---- scenario 10: searchable tags removed from (or added to) base-only features that other features are validated
\*      through, then replacements that must be rejected for a dependent (C37, C13): a tag edit copies the feature
\*      into the overlay, which must keep finding it as a dependent of its paths and points
Base10 == World([P0 |-> Pt(0, NT), P1 |-> Pt(1, NT), P2 |-> Pt(2, NT), P3 |-> Pt(5, NT),
                 W1 |-> Pa(<<"P0", "P1", "P2", "P0">>, T("-", "x", "-")),
                 A1 |-> Ar(<< <<"W1">> >>, T("y", "-", "x"))])
Cand10 == { C("W1", Pa(<<"P0", "P1">>, NT)),                            \* opens the path under A1: reject
            C("W1", Pa(<<"P0", "P1", "P2", "P3">>, NT)),                \* open, same length: reject
            C("P1", Pt(3, NT)),                                         \* loop 0,3,2 clockwise: reject
            C("P1", Pt(2, NT)),                                         \* duplicate vertex: reject
            C("P2", Pt(4, NT)) }                                        \* loop 0,1,4 stays counter-clockwise: accept
MCBase == CASE Scenario = 10 -> Base10 [] Scenario = 7 -> Base3 [] Scenario = 8 -> Base8 [] Scenario = 9 -> Base5 [] Scenario = 1 -> Base1 [] Scenario = 2 -> Base2 [] Scenario = 3 -> Base3
            [] Scenario = 4 -> Base4 [] Scenario = 5 -> Base5 [] Scenario = 6 -> Base5
MCCandidates == CASE Scenario = 10 -> Cand10 [] Scenario = 7 -> Cand7 [] Scenario = 8 -> Cand8 [] Scenario = 9 -> {} [] Scenario = 1 -> Cand1 [] Scenario = 2 -> Cand2 [] Scenario = 3 -> Cand3
                  [] Scenario = 4 -> Cand4 [] Scenario = 5 -> Cand5 [] Scenario = 6 -> Cand5
MCAddTagOps ==
   CASE Scenario = 1 -> {<<"P0", "#s", "x">>, <<"P0", "#s", "y">>, <<"P0", "n", "y">>,
                         <<"P0", "n", "x">>,     \* the base's own value again, after it was overwritten or removed
                         <<"A1", "#s", "x">>, <<"A1", "n", "x">>, <<"A1", "@t", "x">>,
                         <<"P3", "n", "x">>, <<"P3", "#s", "y">>}
     [] Scenario = 2 -> {<<"W1", "#s", "y">>, <<"W1", "n", "x">>, <<"W1", "@t", "y">>,
                         <<"W1", "n", "y">>,     \* the base's own value again
                         <<"W1", "@t", "x">>,    \* an @-key is indexed by key alone: the value changes, the token does not
                         <<"R1", "#s", "y">>, <<"R1", "n", "x">>,
                         <<"C1", "#s", "x">>, <<"C1", "n", "y">>, <<"P4", "n", "x">>}
     [] Scenario = 5 -> {<<"P0", "#s", "y">>, <<"P0", "n", "x">>}
     [] Scenario = 7 -> {<<"P0", "n", "y">>, <<"W1", "n", "y">>, <<"P1", "n", "x">>}   \* pending plain-tag edits on base-only features
     [] Scenario = 6 -> {<<"P0", "#s", "y">>}
     [] Scenario = 9 -> {<<"P0", "n", "x">>, <<"P0", "n", "y">>, <<"W1", "n", "x">>, <<"P0", "#s", "y">>}
     [] Scenario = 10 -> {<<"A1", "#s", "x">>, <<"W1", "#s", "y">>, <<"A1", "n", "y">>}
     [] OTHER -> {}
MCRmTagOps ==
   CASE Scenario = 1 -> {<<"P0", "#s">>, <<"P0", "n">>, <<"A1", "#s">>, <<"A1", "n">>, <<"P3", "n">>, <<"P3", "#s">>}
     [] Scenario = 2 -> {<<"W1", "#s">>, <<"W1", "n">>, <<"R1", "#s">>, <<"R1", "n">>, <<"C1", "n">>, <<"C1", "#s">>}
     [] Scenario = 5 -> {<<"P0", "#s">>, <<"P0", "n">>}
     [] Scenario = 6 -> {<<"P0", "#s">>}
     [] Scenario = 10 -> {<<"A1", "#s">>, <<"W1", "@t">>, <<"A1", "n">>}
     [] OTHER -> {}
MCMaxSnaps == CASE Scenario = 5 -> 1 [] Scenario = 6 -> 2 [] Scenario = 9 -> 2 [] OTHER -> 0
MCWithMutate == Scenario \in {2, 3, 8}
MCWithRoundTrip == Scenario \in {1, 2, 3, 8}

Tg(k, v) == [k |-> "tagged", key |-> k, val |-> v]
Ky(k) == [k |-> "keyed", key |-> k]
Ty(t, q) == [k |-> "typed", t |-> t, q |-> q]
MCQueries == [ all_          |-> [k |-> "all"],
               tagged_sx     |-> Tg("#s", "x"),
               tagged_sy     |-> Tg("#s", "y"),
               keyed_s       |-> Ky("#s"),
               keyed_t       |-> Ky("@t"),
               typedP_keyed  |-> Ty("P", Ky("#s")),
               typedA_tagged |-> Ty("A", Tg("#s", "y")),
               allTypedW_    |-> Ty("W", [k |-> "all"]),
               allTypedR_    |-> Ty("R", [k |-> "all"]),
               and_st        |-> [k |-> "and", qs |-> <<Ky("#s"), Ky("@t")>>],
               or_st         |-> [k |-> "or", qs |-> <<Tg("#s", "x"), Ky("@t")>>],
               or_nested     |-> [k |-> "or", qs |-> <<Ty("P", Tg("#s", "y")), [k |-> "and", qs |-> <<Ky("@t"), Ty("R", Ky("@t"))>>]>>] ]
====
