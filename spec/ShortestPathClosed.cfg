\* networks with a (counter-clockwise) closed way: a triangle, alone or with one more 2-point way
SPECIFICATION Spec
CONSTANTS
  NPoints = 4
  MaxWays = 2
  MaxLen = 2
  ClosedLens = {3}
  Ws = {1}
  Kinds = {"res", "one"}
  Limits = {3}
  Profiles = {"car"}
  Origins = {0}
  Modes = {"all"}
  OriginTest = "whole-way"
  Filter = "closed"
  Explore = TRUE
  CaseFile = ""
INVARIANTS Correct TypeOK
PROPERTY Settled
CHECK_DEADLOCK TRUE
