---- MODULE MapParallel ----
(* api/functions/map.go: mapParallelCollection.run + Next  -- C25.  One action per channel operation;
   `select` is a disjunction; the errgroup is `cancelled` (Done closed) + `gerr` (first non-nil return).

       in[i], out[i] := make(chan expressionPair, 1)          inq[i], outq[i]: sequences of length <= 1
       worker i:   for pair := range in[i] {                                    WRecv / WRecvClosed
                       v, err := f(pair.Value)                                  WCall
                       if err == nil { select { case out[i] <- v:               WEmit (send)
                                                case <-c.Done(): return nil } }  WEmit (done)
                       else { return err } }                                    (WCall on a failing item)
                   return nil
       dispatcher: for ok && err == nil { ok, err = input.Next()                DLoop
                       select { case in[write % N] <- pair:                     DSend (send)
                                case <-c.Done(): err = c.Err() }                DSend (done)
                       write++ }
                   for i: close(in[i]); return err                              DClose
       run():      m.err = g.Wait(); for i: close(out[i])                       RWait
       Next():     m.read++; v, ok := <-out[m.read % N]; ok ? (true, nil) : (false, m.err)    CNext

   A configuration [n |-> cores, ni |-> items, F |-> failing items] is chosen in Init; item k of the input has
   key k and map's result for it is k (identity on indices: the harness compares positions).  The observable
   outcome is the yielded list and how the iteration ends: "nil" or the item whose error is returned. *)
EXTENDS Integers, Sequences, FiniteSets, TLC, Json
CONSTANTS MinN, MaxN,    \* cores
          MaxNI,         \* items 0..MaxNI
          MaxFail        \* at most this many failing items
VARIABLES cfg,
          inq, outq, inClosed, outClosed, cancelled,
          gerr,                 \* 0 = nil, k > 0 = the error of item k, -1 = ctx.Err() (never first, see GerrIsItem)
          wpc, wcur,            \* worker: "recv" | "call" | "emit" | "ret" | "none"; current item
          dnext, dpc,           \* dispatcher: next item; "loop" | "send" | "close" | "ret"
          waited,               \* run(): g.Wait() returned and the out channels are closed
          r, yielded, cres      \* consumer: Next() calls that returned true, yielded list, "" | "nil" | "err"
vars == <<cfg, inq, outq, inClosed, outClosed, cancelled, gerr, wpc, wcur, dnext, dpc, waited, r, yielded, cres>>

AllConfigs == {[n |-> n, ni |-> ni, F |-> F] : n \in MinN..MaxN, ni \in 0..MaxNI,
                                               F \in {X \in SUBSET (1..MaxNI) : Cardinality(X) <= MaxFail}}
Configs == {c \in AllConfigs : c.F \subseteq 1..c.ni}
N == cfg.n
NI == cfg.ni
Fail == cfg.F
W == 0..(N - 1)
AW == 0..(MaxN - 1)

Init == /\ cfg \in Configs
        /\ inq = [i \in AW |-> <<>>] /\ outq = [i \in AW |-> <<>>]
        /\ inClosed = FALSE /\ outClosed = FALSE /\ cancelled = FALSE /\ gerr = 0
        /\ wpc = [i \in AW |-> IF i < cfg.n THEN "recv" ELSE "none"] /\ wcur = [i \in AW |-> 0]
        /\ dnext = 1 /\ dpc = "loop" /\ waited = FALSE
        /\ r = 0 /\ yielded = <<>> /\ cres = ""

\* a goroutine of the group returns a non-nil error: the first one is kept, the context is cancelled
Cancel(e) == /\ cancelled' = TRUE /\ gerr' = IF gerr = 0 THEN e ELSE gerr

\* ---- dispatcher ----
DLoop == /\ dpc = "loop"
         /\ dpc' = IF dnext <= NI THEN "send" ELSE "close"
         /\ UNCHANGED <<cfg, inq, outq, inClosed, outClosed, cancelled, gerr, wpc, wcur, dnext, waited, r, yielded, cres>>
DSend == /\ dpc = "send"
         /\ LET i == (dnext - 1) % N IN
            \/ /\ Len(inq[i]) < 1                              \* case in[i] <- pair
               /\ inq' = [inq EXCEPT ![i] = Append(@, dnext)]
               /\ dnext' = dnext + 1 /\ dpc' = "loop"
               /\ UNCHANGED <<cancelled, gerr>>
            \/ /\ cancelled                                     \* case <-c.Done(): err = c.Err(); the loop ends
               /\ dnext' = dnext + 1 /\ dpc' = "close"
               /\ inq' = inq /\ Cancel(-1)
         /\ UNCHANGED <<cfg, outq, inClosed, outClosed, wpc, wcur, waited, r, yielded, cres>>
DClose == /\ dpc = "close" /\ inClosed' = TRUE /\ dpc' = "ret"
          /\ UNCHANGED <<cfg, inq, outq, outClosed, cancelled, gerr, wpc, wcur, dnext, waited, r, yielded, cres>>

\* ---- workers ----
WRecv(i) == /\ wpc[i] = "recv" /\ inq[i] # <<>>                       \* pair := <-in[i]
            /\ wcur' = [wcur EXCEPT ![i] = Head(inq[i])]
            /\ inq' = [inq EXCEPT ![i] = Tail(@)]
            /\ wpc' = [wpc EXCEPT ![i] = "call"]
            /\ UNCHANGED <<cfg, outq, inClosed, outClosed, cancelled, gerr, dnext, dpc, waited, r, yielded, cres>>
\* v, err := f(pair.Value): a step of its own -- the slot in in[i] is free while f runs, so the dispatcher can get
\* ahead and a later failing item can be the first to fail
WCall(i) == /\ wpc[i] = "call"
            /\ IF wcur[i] \in Fail
               THEN wpc' = [wpc EXCEPT ![i] = "ret"] /\ Cancel(wcur[i])               \* return err
               ELSE wpc' = [wpc EXCEPT ![i] = "emit"] /\ UNCHANGED <<cancelled, gerr>>
            /\ UNCHANGED <<cfg, inq, outq, inClosed, outClosed, wcur, dnext, dpc, waited, r, yielded, cres>>
WRecvClosed(i) == /\ wpc[i] = "recv" /\ inq[i] = <<>> /\ inClosed
                  /\ wpc' = [wpc EXCEPT ![i] = "ret"]
                  /\ UNCHANGED <<cfg, inq, outq, inClosed, outClosed, cancelled, gerr, wcur, dnext, dpc, waited, r, yielded, cres>>
WEmit(i) == /\ wpc[i] = "emit"
            /\ \/ /\ Len(outq[i]) < 1                           \* case out <- result
                  /\ outq' = [outq EXCEPT ![i] = Append(@, wcur[i])]
                  /\ wpc' = [wpc EXCEPT ![i] = "recv"]
               \/ /\ cancelled                                  \* case <-c.Done(): return nil
                  /\ wpc' = [wpc EXCEPT ![i] = "ret"] /\ UNCHANGED outq
            /\ UNCHANGED <<cfg, inq, inClosed, outClosed, cancelled, gerr, wcur, dnext, dpc, waited, r, yielded, cres>>

\* ---- run(): m.err = g.Wait(); close(out[i]) ----
RWait == /\ ~waited /\ dpc = "ret" /\ \A i \in W : wpc[i] = "ret"
         /\ waited' = TRUE /\ outClosed' = TRUE
         /\ UNCHANGED <<cfg, inq, outq, inClosed, cancelled, gerr, wpc, wcur, dnext, dpc, r, yielded, cres>>

\* ---- consumer: Next() ----
CNext == /\ cres = ""
         /\ LET i == r % N IN
            \/ /\ outq[i] # <<>>
               /\ yielded' = Append(yielded, Head(outq[i]))
               /\ outq' = [outq EXCEPT ![i] = Tail(@)]
               /\ r' = r + 1 /\ UNCHANGED cres
            \/ /\ outq[i] = <<>> /\ outClosed
               /\ cres' = IF gerr = 0 THEN "nil" ELSE "err"
               /\ UNCHANGED <<yielded, outq, r>>
         /\ UNCHANGED <<cfg, inq, inClosed, outClosed, cancelled, gerr, wpc, wcur, dnext, dpc, waited>>

Step == DLoop \/ DSend \/ DClose \/ RWait \/ CNext \/ \E i \in W : WRecv(i) \/ WCall(i) \/ WRecvClosed(i) \/ WEmit(i)

\* ---- observation ----
Stuck == cres = "" /\ ~ENABLED Step
Outcome == [cores |-> N, ni |-> NI, fail |-> Fail, yielded |-> yielded,
            res |-> IF cres = "" THEN "hang" ELSE cres, erritem |-> gerr]
Halt == /\ cres # "" \/ Stuck
        /\ PrintT(<<"OUTCOME", ToJson(Outcome)>>)
        /\ UNCHANGED vars
Next == Step \/ Halt
Spec == Init /\ [][Next]_vars /\ WF_vars(Step)

\* ---- properties of the design (C25) ----
Expected == [k \in 1..NI |-> k]
IsPrefix(s, t) == Len(s) <= Len(t) /\ \A k \in 1..Len(s) : s[k] = t[k]
\* what has been yielded is always a prefix of map's results, and stops before the first failing item
PrefixInv == IsPrefix(yielded, Expected) /\ \A k \in 1..Len(yielded) : \A f \in Fail : yielded[k] < f
\* the iteration ends with everything and nil, or with the error of a failing item
DoneInv == cres # "" => /\ (Fail = {} => cres = "nil" /\ yielded = Expected)
                        /\ (Fail # {} => cres = "err" /\ gerr \in Fail)
\* the error kept by the errgroup is never the dispatcher's ctx.Err()
GerrIsItem == gerr \in Fail \cup {0}
NoHang == ~Stuck
Terminates == <>(cres # "")
====
