---- MODULE StreamsPBF ----
(* osm/pbf.go: ReadPBFWithOptions(r, emit, options)  -- C28.

   Units are the blobs of the file: unit 1 is the OSMHeader blob (size 0: workers ignore it), every other
   unit is an OSMData blob whose elements are emitted in order by the worker that received it.

       c := make(chan *blob, cores)                      `q`, capacity g; 0 in q = a blobTypeDone marker
       ctx, cancel := context.WithCancel(Background)     `cancelled`
       reader:   readBlobs: for each blob { select { case blobs <- b:             RSend
                                                     case <-ctx.Done(): return ctx.Err() } }   RCancelled
                 (EOF: return nil)                                                REof
                 for i := 0; i < cores; i++ { select { case c <- done-marker:      RSendDone
                                                       case <-ctx.Done(): } }     RSkipDone (only when Fixed)
                 wg.Done()                                                        RExit
       worker:   for { select { case <-ctx.Done(): return                         WDone
                                case b := <-c:                                    WRecv
                                    data: if err := readOSMDataBlob(b, emit); err != nil {    Proc (one action per element)
                                              readOSMDataErr = err; cancel() }
                                    done: return } }
       main:     wg.Wait(); cancel(); close(c); return readOSMDataErr             Wait

   Fixed = FALSE (cfg.fixed) is the code before commit dd16412 ("Before" variant): when the workers have left through ctx.Done, the reader still sends
   `cores` done-markers into a channel that nobody drains; if unread blobs remain in the buffer it blocks for ever.
   Fixed = TRUE is the code as it stands, after fixes/C28-pbf-done-markers-select.diff: each done-marker send
   selects on ctx.Done() (RSkipDone). *)
EXTENDS Integers, Sequences, FiniteSets, TLC, Json, StreamsBase
CONSTANTS MaxG, SizeVecs, MaxFail, Modes,
          Variants,   \* which protocols: subset of {TRUE, FALSE} (cfg.fixed)
          JudgeAll    \* FALSE: the properties below speak about the repaired protocol only; TRUE: about every variant
VARIABLES cfg, pnext, ppc, ndone, q, cancelled, cause, wpc, wu, wi, calls, failed, ret
vars == <<cfg, pnext, ppc, ndone, q, cancelled, cause, wpc, wu, wi, calls, failed, ret>>

QuickSizes == {<<0>>, <<0, 1>>, <<0, 1, 1>>, <<0, 2, 1>>}
ThoroughSizes == QuickSizes \cup {<<0, 2>>, <<0, 1, 2>>, <<0, 1, 1, 1>>, <<0, 1, 2, 1>>}
AllConfigs == Configs(MaxG, SizeVecs, MaxFail, Modes, Variants)
Fixed == cfg.fixed
Judged == Fixed \/ JudgeAll
MaxItems == MaxOf({NItems(s) : s \in SizeVecs} \cup {1})
S == cfg.sizes
NB == Len(S)
W == 1..cfg.g
Fails(k) == CbFails(cfg.mode, cfg.F, k, calls, failed)

Init == /\ cfg \in AllConfigs
        /\ pnext = 1 /\ ppc = "read" /\ ndone = 0 /\ q = <<>> /\ cancelled = FALSE /\ cause = "nil"
        /\ wpc = [w \in 1..MaxG |-> IF w <= cfg.g THEN "sel" ELSE "none"]
        /\ wu = [w \in 1..MaxG |-> 0] /\ wi = [w \in 1..MaxG |-> 0]
        /\ calls = [k \in 1..MaxItems |-> 0]
        /\ failed = FALSE /\ ret = ""

\* ---- reader goroutine ----
RSend == /\ ppc = "read" /\ pnext <= NB /\ Len(q) < cfg.g
         /\ q' = Append(q, pnext) /\ pnext' = pnext + 1
         /\ UNCHANGED <<cfg, ppc, ndone, cancelled, cause, wpc, wu, wi, calls, failed, ret>>
RCancelled == /\ ppc = "read" /\ pnext <= NB /\ cancelled
              /\ ppc' = "dones"
              /\ UNCHANGED <<cfg, pnext, ndone, q, cancelled, cause, wpc, wu, wi, calls, failed, ret>>
REof == /\ ppc = "read" /\ pnext > NB
        /\ ppc' = "dones"
        /\ UNCHANGED <<cfg, pnext, ndone, q, cancelled, cause, wpc, wu, wi, calls, failed, ret>>
RSendDone == /\ ppc = "dones" /\ ndone < cfg.g /\ Len(q) < cfg.g
             /\ q' = Append(q, 0) /\ ndone' = ndone + 1
             /\ UNCHANGED <<cfg, pnext, ppc, cancelled, cause, wpc, wu, wi, calls, failed, ret>>
\* only after the fix: select { case c <- done: case <-ctx.Done(): }
RSkipDone == /\ Fixed /\ ppc = "dones" /\ ndone < cfg.g /\ cancelled
             /\ ndone' = ndone + 1
             /\ UNCHANGED <<cfg, pnext, ppc, q, cancelled, cause, wpc, wu, wi, calls, failed, ret>>
RExit == /\ ppc = "dones" /\ ndone = cfg.g
         /\ ppc' = "exit"
         /\ UNCHANGED <<cfg, pnext, ndone, q, cancelled, cause, wpc, wu, wi, calls, failed, ret>>

\* ---- workers ----
WDone(w) == /\ wpc[w] = "sel" /\ cancelled
            /\ wpc' = [wpc EXCEPT ![w] = "exit"]
            /\ UNCHANGED <<cfg, pnext, ppc, ndone, q, cancelled, cause, wu, wi, calls, failed, ret>>
WRecv(w) == /\ wpc[w] = "sel" /\ q # <<>>
            /\ q' = Tail(q)
            /\ LET u == Head(q)
               IN IF u = 0 THEN wpc' = [wpc EXCEPT ![w] = "exit"] /\ UNCHANGED <<wu, wi>>
                  ELSE IF S[u] = 0 THEN UNCHANGED <<wpc, wu, wi>>
                  ELSE /\ wpc' = [wpc EXCEPT ![w] = "proc"]
                       /\ wu' = [wu EXCEPT ![w] = u] /\ wi' = [wi EXCEPT ![w] = 1]
            /\ UNCHANGED <<cfg, pnext, ppc, ndone, cancelled, cause, calls, failed, ret>>
Proc(w) == /\ wpc[w] = "proc"
           /\ LET k == Item(S, wu[w], wi[w])
              IN /\ calls' = [calls EXCEPT ![k] = Bump(@)]
                 /\ failed' = (failed \/ Fails(k))
                 /\ IF Fails(k)
                    THEN /\ cause' = "err" /\ cancelled' = TRUE
                         /\ wpc' = [wpc EXCEPT ![w] = "sel"] /\ wi' = wi
                    ELSE /\ UNCHANGED <<cause, cancelled>>
                         /\ IF wi[w] = S[wu[w]] THEN wpc' = [wpc EXCEPT ![w] = "sel"] /\ wi' = wi
                                                ELSE wpc' = wpc /\ wi' = [wi EXCEPT ![w] = @ + 1]
           /\ UNCHANGED <<cfg, pnext, ppc, ndone, q, wu, ret>>

Wait == /\ ret = "" /\ ppc = "exit" /\ \A w \in W : wpc[w] = "exit"
        /\ ret' = cause
        /\ UNCHANGED <<cfg, pnext, ppc, ndone, q, cancelled, cause, wpc, wu, wi, calls, failed>>

Step == \/ RSend \/ RCancelled \/ REof \/ RSendDone \/ RSkipDone \/ RExit \/ Wait
        \/ \E w \in W : WDone(w) \/ WRecv(w) \/ Proc(w)

\* ---- observation ----
Stuck == ret = "" /\ ~ENABLED Step
Outcome == [inst |-> "pbf", fixed |-> Fixed, g |-> cfg.g, sizes |-> S, fail |-> cfg.F, mode |-> cfg.mode,
            ret |-> IF ret = "" THEN "hang" ELSE ret,
            delivered |-> {k \in 1..MaxItems : calls[k] > 0}, twice |-> {k \in 1..MaxItems : calls[k] > 1}]
Halt == /\ ret # "" \/ Stuck
        /\ PrintT(<<"OUTCOME", ToJson(Outcome)>>)
        /\ UNCHANGED vars
Next == Step \/ Halt
Spec == Init /\ [][Next]_vars /\ WF_vars(Step)

\* ---- properties of the design (C28) ----
NoHang == Judged => ~Stuck
ReportsError == (Judged /\ ret # "") => (failed <=> ret = "err")
Complete == (ret # "" /\ ~failed) => \A k \in 1..NItems(S) : calls[k] = 1
NoSecondCall == Judged => \A k \in 1..MaxItems : calls[k] < 2
Terminates == Judged => <>(ret # "")
====
