---- MODULE MCSortedIter ----
(* Model-checking instances of SortedIter: the query sets and index sets for C06 (query trees over three tokens)
   and C08 (one posting list; long lists with few holes). *)
EXTENDS SortedIter, SequencesExt
CONSTANTS ExportQueries, \* the query trees whose denotation over every index is exported (a superset of Queries)
          RepToken       \* token used by the representative (idx, q) for which EDGE lines from fresh are printed

\* ---------------------------------------------------------------- export (binding A)
\* Next/Advance read only `den` and `cur`, so two states with the same den and the same non-fresh cursor have the
\* same futures: the VIEW identifies them (every (idx, q) is still an initial state of its own, its denotation is
\* checked by DenIsDenotation, and every call from its fresh state is generated and checked).
View == IF cur.st = "fresh" THEN <<idx, q, den, cur>> ELSE <<den, cur>>
IsRep == /\ q = [k |-> "all", t |-> RepToken]
         /\ \A t \in Tokens \ {RepToken} : idx[t] = {}
QSeq == SetToSeq(ExportQueries)    \* constants: evaluated once
FirstQuery == SetToSeq(Queries)[1]
Emit == /\ (cur.st = "fresh" /\ ev'.op = "next" /\ q = FirstQuery) =>
               PrintT(<<"DENS", ToJson([idx |-> idx, ds |-> [i \in 1..Len(QSeq) |-> Den(idx, QSeq[i])]])>>)
        /\ (cur.st # "fresh" \/ IsRep) =>
               PrintT(<<"EDGE", ToJson([d |-> D, from |-> cur, ev |-> ev', to |-> cur'])>>)
ASSUME Queries \subseteq ExportQueries
ASSUME PrintT(<<"QUERIES", ToJson(QSeq)>>)

\* ---------------------------------------------------------------- query trees (C06)
A(t) == [k |-> "all", t |-> t]
P(p) == [k |-> "prefix", p |-> p]
E == [k |-> "empty"]
U(qs) == [k |-> "union", qs |-> qs]
I(qs) == [k |-> "inter", qs |-> qs]
R(b, e, x) == [k |-> "range", b |-> b, e |-> e, q |-> x]

Lists == {A(t) : t \in Tokens}                                  \* the stored posting lists
\* leaves: every stored list, a token the index does not have, prefixes matching several / all / one / no token
\* ("c" sorts after every token: the token iterator itself is exhausted), and the empty query
Leaves == Lists \cup {A("zz"), P("a"), P(""), P("ab"), P("b"), P("aa"), P("c"), E}
Core == Lists \cup {P("a"), E}                                  \* leaves used inside binary combinators
Lo == CHOOSE x \in Keys : \A y \in Keys : x <= y
Hi == CHOOSE x \in Keys : \A y \in Keys : x >= y
\* key ranges: proper windows, a window starting below / ending above every key, an empty and an inverted window
Windows == {<<Lo, Hi>>, <<Lo + 1, Hi + 1>>, <<Lo - 1, Lo + 1>>, <<Lo, Hi + 1>>, <<Lo + 1, Lo + 1>>, <<Hi, Lo>>}
MainWindows == {<<Lo, Hi>>, <<Lo + 1, Hi + 1>>}

Depth1 == Leaves
  \cup {U(<<>>)} \cup {U(<<x>>) : x \in Core} \cup {U(<<x, y>>) : x, y \in Core}
  \cup {U(<<x, y, z>>) : x, y, z \in Lists}
  \cup {I(<<x>>) : x \in Core} \cup {I(<<x, y>>) : x, y \in Core}
  \cup {I(<<x, y, z>>) : x, y, z \in Lists}
  \cup {R(w[1], w[2], x) : w \in Windows, x \in Core}

Depth2Small ==
       {U(<<I(<<x, y>>), z>>) : x, y, z \in Lists} \cup {U(<<z, I(<<x, y>>)>>) : x, y, z \in Lists}
  \cup {I(<<U(<<x, y>>), z>>) : x, y, z \in Lists} \cup {I(<<z, U(<<x, y>>)>>) : x, y, z \in Lists}
  \cup {R(w[1], w[2], U(<<x, y>>)) : w \in MainWindows, x, y \in Lists}
  \cup {R(w[1], w[2], I(<<x, y>>)) : w \in MainWindows, x, y \in Lists}
  \cup {U(<<R(Lo, Hi, x), R(Lo + 1, Hi + 1, y)>>) : x, y \in Lists}
  \cup {I(<<R(Lo, Hi, x), y>>) : x, y \in Lists} \cup {I(<<x, R(Lo + 1, Hi + 1, y)>>) : x, y \in Lists}
  \cup {R(Lo, Hi + 1, R(Lo + 1, Hi, x)) : x \in Lists}

Depth2More ==
       {U(<<I(<<x, y>>), I(<<y, z>>)>>) : x, y, z \in Lists}
  \cup {I(<<U(<<x, y>>), U(<<y, z>>)>>) : x, y, z \in Lists}
  \cup {U(<<P("a"), I(<<x, y>>)>>) : x, y \in Lists} \cup {I(<<P("a"), U(<<x, y>>)>>) : x, y \in Lists}
  \cup {R(w[1], w[2], U(<<x, y, z>>)) : w \in MainWindows, x, y, z \in Lists}
  \cup {R(w[1], w[2], I(<<x, y>>)) : w \in Windows, x, y \in Lists}
  \cup {U(<<x, R(w[1], w[2], y), z>>) : w \in MainWindows, x, y, z \in Lists}
  \cup {I(<<R(w[1], w[2], P("a")), x>>) : w \in Windows, x \in Lists}

\* a few queries of every kind: the initial states of the quick configuration (the denotation of every query of
\* QuickQueries is exported and executed on the code all the same)
SmokeQueries == Leaves \cup {U(<<>>), U(<<A("a"), A("ab")>>), U(<<A("b"), A("ab"), A("a")>>), I(<<A("a"), A("ab")>>),
                             I(<<A("ab"), A("b"), A("a")>>), R(Lo, Hi, A("a")), R(Lo + 1, Hi + 1, P("a")),
                             U(<<I(<<A("a"), A("ab")>>), A("b")>>), I(<<U(<<A("a"), A("ab")>>), A("b")>>),
                             R(Lo, Hi, U(<<A("a"), A("b")>>)), I(<<R(Lo, Hi, A("a")), A("b")>>)}
QuickQueries == Depth1 \cup Depth2Small
ThoroughQueries == Depth1 \cup Depth2Small \cup Depth2More
AllIndices == [Tokens -> SUBSET Keys]

\* ---------------------------------------------------------------- posting lists (C08): one token, q = all
ListQuery == {A(RepToken)}
\* long lists with at most MaxHoles ranks missing (block-boundary layouts need many IDs)
CONSTANT MaxHoles
HoleSets == {{}} \cup (IF MaxHoles >= 1 THEN {{a} : a \in Keys} ELSE {})
                 \cup (IF MaxHoles >= 2 THEN {{a, b} : a, b \in Keys} ELSE {})
DenseIndices == {[t \in Tokens |-> Keys \ H] : H \in HoleSets}

\* ---------------------------------------------------------------- derived facts checked once per run
ASSUME Cardinality(Keys) > 12 \/ \A S \in SUBSET Keys : EnumeratesExactly(S)
====
