---- MODULE World ----
(* Pure definitions shared by every world specification: what a b6 world *is* (a finite map from
   feature IDs to features), what makes a feature valid (ingest/validate.go), what the read queries
   denote (lookup, tag search, reference queries) and the observation Obs(w) that the Go harness
   computes from a real b6.World with harness/obs.Observe.  "implementation = spec" is equality of
   the two observations.

   Geometry is made combinatorial (DESIGN.md 4.3): every point sits on vertex v \in 0..NV-1 of a small
   regular polygon; a closed path over distinct vertices is a simple counter-clockwise loop iff the
   vertex indices increase cyclically.

   A feature is a record
      [kind |-> "point"|"path"|"area"|"rel"|"coll"|"absent",
       v    |-> vertex index (points) or -1,
       pts  |-> sequence of point IDs (paths),
       polys|-> sequence of sequences of path IDs (areas),
       members |-> sequence of feature IDs (relations, collections),
       tags |-> [Keys -> value | "-"]]            "-" = key absent
   IDs are short strings "P0", "W1", "A1", "R1", "C1"; the first letter is the feature type.  *)
EXTENDS Integers, Sequences, FiniteSets, TLC

CONSTANTS Keys,      \* tag keys; '#k' is indexed as token k=v, '@k' as token k, others are not indexed
          Vals,      \* tag values
          IDOrder    \* every feature ID of the model, as a sequence in b6.FeatureID.Less order

None == "-"
IDs == {IDOrder[i] : i \in DOMAIN IDOrder}
NoTags == [k \in Keys |-> None]
Absent == [kind |-> "absent", v |-> -1, pts |-> <<>>, polys |-> <<>>, members |-> <<>>, tags |-> NoTags]
Pt(v, t)  == [kind |-> "point", v |-> v, pts |-> <<>>, polys |-> <<>>, members |-> <<>>, tags |-> t]
Pa(ps, t) == [kind |-> "path", v |-> -1, pts |-> ps, polys |-> <<>>, members |-> <<>>, tags |-> t]
Ar(ps, t) == [kind |-> "area", v |-> -1, pts |-> <<>>, polys |-> ps, members |-> <<>>, tags |-> t]
Re(ms, t) == [kind |-> "rel", v |-> -1, pts |-> <<>>, polys |-> <<>>, members |-> ms, tags |-> t]
Co(ms, t) == [kind |-> "coll", v |-> -1, pts |-> <<>>, polys |-> <<>>, members |-> ms, tags |-> t]

Get(w, id) == IF id \in DOMAIN w THEN w[id] ELSE Absent
Present(w, id) == Get(w, id).kind # "absent"
PresentIDs(w) == {id \in DOMAIN w : Present(w, id)}
Sorted(S) == SelectSeq(IDOrder, LAMBDA x : x \in S)
TypeOf(id) == SubSeq(id, 1, 1)
Put(w, id, f) == [x \in DOMAIN w \cup {id} |-> IF x = id THEN f ELSE w[x]]

\* ------------------------------------------------------------------ validity (ingest/validate.go)
\* a path may also carry raw locations next to point references ("mixed geometry"): "L<n>" is the literal vertex n
LV == ("L0" :> 0) @@ ("L1" :> 1) @@ ("L2" :> 2) @@ ("L3" :> 3) @@ ("L4" :> 4) @@ ("L5" :> 5) @@ ("L6" :> 6) @@
      ("L7" :> 7) @@ ("L8" :> 8) @@ ("L9" :> 9) @@ ("L10" :> 10) @@ ("L11" :> 11)
IsLit(p) == p \in DOMAIN LV
Loc(w, pid) == IF IsLit(pid) THEN LV[pid] ELSE IF Get(w, pid).kind = "point" THEN Get(w, pid).v ELSE -1
Verts(w, f) == [i \in DOMAIN f.pts |-> Loc(w, f.pts[i])]
ClosedByRef(f) == Len(f.pts) >= 1 /\ f.pts[1] = f.pts[Len(f.pts)]
CyclicUp(s) == \E r \in 1..Len(s) : \A i \in 1..(Len(s) - 1) :
                  s[((r + i - 2) % Len(s)) + 1] < s[((r + i - 1) % Len(s)) + 1]
Reverse(s) == [i \in DOMAIN s |-> s[Len(s) + 1 - i]]
LoopClass(vs) ==   \* vs: vertex indices of the loop (without the repeated closing point)
   IF Len(vs) < 3 THEN "invalid"
   ELSE IF \E i \in 1..Len(vs) : vs[i] = vs[(i % Len(vs)) + 1] THEN "invalid"      \* degenerate edge
   ELSE IF Cardinality({vs[i] : i \in DOMAIN vs}) < Len(vs) THEN "unspecified"     \* non-adjacent duplicate
   ELSE IF CyclicUp(vs) THEN "ccw"
   ELSE IF CyclicUp(Reverse(vs)) THEN "cw"
   ELSE "unspecified"                                                               \* self-crossing
PathLoopClass(w, f) == LoopClass(SubSeq(Verts(w, f), 1, Len(f.pts) - 1))
ValidPath(w, f) ==
   /\ Len(f.pts) >= 2
   /\ \A i \in DOMAIN f.pts : Loc(w, f.pts[i]) >= 0
   /\ ClosedByRef(f) => PathLoopClass(w, f) = "ccw"
ValidArea(w, f) ==
   \A i \in DOMAIN f.polys : \A j \in DOMAIN f.polys[i] :
      LET p == Get(w, f.polys[i][j]) IN
      /\ p.kind = "path" /\ Len(p.pts) >= 3
      /\ Loc(w, p.pts[1]) >= 0 /\ Loc(w, p.pts[1]) = Loc(w, p.pts[Len(p.pts)])
Valid(w, f) == CASE f.kind = "path" -> ValidPath(w, f)
                 [] f.kind = "area" -> ValidArea(w, f)
                 [] OTHER -> TRUE
AllValid(w) == \A id \in PresentIDs(w) : Valid(w, w[id])
\* a feature whose validity the specification does not pronounce on (self-crossing loops: the vendored s2
\* does not check crossings) -- candidates of this class are never generated
Unspecified(w, f) == f.kind = "path" /\ Len(f.pts) >= 2 /\ (\A i \in DOMAIN f.pts : Loc(w, f.pts[i]) >= 0)
                     /\ ClosedByRef(f) /\ PathLoopClass(w, f) = "unspecified"

\* ------------------------------------------------------------------ references
Range(s) == {s[i] : i \in DOMAIN s}
DirectRefs(f) == (Range(f.pts) \ DOMAIN LV) \cup UNION {Range(f.polys[i]) : i \in DOMAIN f.polys} \cup Range(f.members)
DirectReferrers(w, id) == {r \in PresentIDs(w) : id \in DirectRefs(w[r])}
RECURSIVE Up(_, _, _)
Up(w, frontier, seen) == LET nxt == (UNION {DirectReferrers(w, x) : x \in frontier}) \ seen IN
                         IF nxt = {} THEN seen ELSE Up(w, nxt, seen \cup nxt)
\* the chain FeatureReferencesByID.findReferences defines: everything that references id, directly or
\* through other referrers; a fixpoint, so it terminates on cycles
Referrers(w, id) == Up(w, {id}, {})
ReferrersOfType(w, id, t) == {r \in Referrers(w, id) : TypeOf(r) = t}

\* ------------------------------------------------------------------ tag search
Searchable(k) == SubSeq(k, 1, 1) \in {"#", "@"}
HasSearchableTag(f) == \E k \in Keys : Searchable(k) /\ f.tags[k] # None
HasAnyTag(f) == \E k \in Keys : f.tags[k] # None
(* queries: [k |-> "all"], [k |-> "tagged", key, val], [k |-> "keyed", key], [k |-> "typed", t, q],
            [k |-> "and", qs], [k |-> "or", qs] *)
RECURSIVE Den(_, _)
Den(w, q) ==
  CASE q.k = "all"    -> {id \in PresentIDs(w) : w[id].kind # "point" \/ HasAnyTag(w[id])}
    [] q.k = "tagged" -> {id \in PresentIDs(w) : w[id].tags[q.key] = q.val}
    [] q.k = "keyed"  -> {id \in PresentIDs(w) : w[id].tags[q.key] # None}
    [] q.k = "typed"  -> {id \in Den(w, q.q) : TypeOf(id) = q.t}
    [] q.k = "and"    -> {id \in Den(w, q.qs[1]) : \A j \in DOMAIN q.qs : id \in Den(w, q.qs[j])}
    [] q.k = "or"     -> UNION {Den(w, q.qs[j]) : j \in DOMAIN q.qs}
Search(w, q) == Sorted(Den(w, q))
\* Points whose only tags are not searchable may or may not be under the index's "all" token depending on
\* how they came to have their tags (TokensForFeature skips a point with only its location; adding a plain
\* tag later does not index it) -- the property speaks about searchable tags, so the "all" query is compared
\* modulo such points.
AllUnspecified(w) == {id \in PresentIDs(w) : w[id].kind = "point" /\ ~HasSearchableTag(w[id])}

\* ------------------------------------------------------------------ observation
ObsFeature(w, id) == LET f == Get(w, id) IN
   [kind |-> f.kind, v |-> f.v, pts |-> f.pts, polys |-> f.polys, members |-> f.members, tags |-> f.tags]
====
