---- MODULE ExprTree ----
(* b6 expression trees (expression.go, search.go), the shell printer (api/shell.go: UnparseExpression,
   UnparseQuery, UnparseTag, UnparseString) and the shell grammar (api/shell.y + lexer in api/shell.go)
   on an ABSTRACT TOKEN STREAM.                                                              [C20, shapes for C19]

   What is modelled, as the code does it:
     * Print  : tree -> token sequence, the printer's rules for `top`, parentheses, pipelines, `&`/`|` joins,
                %q string escaping and the tag-value escaping rule.
     * Parse  : token sequence -> tree, a recursive-descent transcription of shell.y (pipelines are left
                associative, `&`/`|` in queries are RIGHT recursive without precedence, `call: SYMBOL args`
                is the only production that applies arguments, a SYMBOL in call position is a zero-argument call).
     * Norm   : the equivalence the property allows ("equivalent expression"): zero-argument call == its
                function; `a | f x` == `f a x` (pipeline == call); same-operator query nesting is flattened.
     * RoundTrip(t) == Norm(Parse(Unparse(t))) = Norm(t).

   The printer/lexer variants are CONSTANTS: all FALSE = the code as it is (TLC then finds the trees that do not
   round-trip: candidates, replayed on the real code by the harness); all TRUE = the repairs proposed in
   /verif/fixes (TLC then shows the round trip holds on the whole bounded domain).

   Literal VALUES are classes; the Go adapter concretises them.  Strings are sequences of abstract characters:
     "a" letter, "n" the letter n, "d" digit, "s" space, "u" printable non-ASCII, "Q" double quote, "B" backslash,
     "N" newline (a control character). *)
EXTENDS Integers, Sequences, FiniteSets, TLC, Json

CONSTANTS MaxSize,          \* largest number of nodes of an enumerated expression shape
          MaxArgs,          \* largest number of arguments of a call
          MaxQSize,         \* largest number of leaves of an enumerated query tree
          MaxStr,           \* longest abstract string
          Kinds,            \* which enumerations to run: subset of {"shape", "query", "string", "tagvalue", "queryvalue"}
          ExprHeads,        \* generate calls whose function is a lambda/call and that have arguments
          GroupQueries,     \* printer brackets compound operands of & and |          (FALSE = as is)
          GroupPipeHead,    \* printer parenthesises a pipeline in function position of a pipeline: "none" (as it was),
                            \* "direct" (only when the function IS a pipelined call), "any" (whenever it PRINTS as one)
          LexerUnescapes,   \* string tokens understand the printer's escapes          (FALSE = as is)
          EscapeTagValues   \* tag values that do not lex as a SYMBOL are quoted       (FALSE = as is)

\* ------------------------------------------------------------------ trees
Sym(n)            == [k |-> "sym", c |-> n]
Atom(c)           == [k |-> "atom", c |-> c]            \* int / float / feature id: one self-delimiting token
Str(s)            == [k |-> "str", s |-> s]
PointL            == [k |-> "point", c |-> "p"]
Tag(key, v)       == [k |-> "tag", key |-> key, v |-> v]  \* key: "#a" (TAG_KEY) or "a" (SYMBOL); v: abstract string
Qry(q)            == [k |-> "query", q |-> q]
Call(f, as, p)    == [k |-> "call", f |-> f, args |-> as, pipe |-> p]
Lam(ps, b)        == [k |-> "lambda", params |-> ps, body |-> b]
Keyed(key)        == [k |-> "keyed", key |-> key]
Tagged(key, v)    == [k |-> "tagged", key |-> key, v |-> v]
And(qs)           == [k |-> "and", qs |-> qs]
Or(qs)            == [k |-> "or", qs |-> qs]
ParseError        == [k |-> "error"]

\* ------------------------------------------------------------------ abstract strings and the lexer
Chars    == {"a", "n", "d", "s", "u", "Q", "B", "N"}
SymRunes == {"a", "n", "d"}                       \* isValidSymbolRune (letters, digits; '-' ':' '_' not modelled)
RECURSIVE StrsOfLen(_)
StrsOfLen(n) == IF n = 0 THEN {<<>>} ELSE {<<c>> \o r : c \in Chars, r \in StrsOfLen(n - 1)}
Strs == UNION {StrsOfLen(n) : n \in 0..MaxStr}

\* fmt.Sprintf("%q"): the body between the quotes
RECURSIVE Esc(_)
Esc(s) == IF s = <<>> THEN <<>> ELSE
          (CASE Head(s) = "Q" -> <<"B", "Q">>
             [] Head(s) = "B" -> <<"B", "B">>
             [] Head(s) = "N" -> <<"B", "n">>
             [] OTHER -> <<Head(s)>>) \o Esc(Tail(s))
HasQ(s) == \E i \in DOMAIN s : s[i] = "Q"
\* lexStringLiteral on `"` body `"`: as it is, the token ends at the FIRST quote character; what follows is lexed
\* as further tokens and always ends in an unterminated string constant.  With LexerUnescapes it inverts Esc.
StrToken(s) == IF LexerUnescapes THEN [t |-> "str", v |-> s]
               ELSE IF HasQ(Esc(s)) THEN [t |-> "bad", v |-> <<>>]
               ELSE [t |-> "str", v |-> Esc(s)]

LexesAsSymbol(v) == v # <<>> /\ v[1] \in {"a", "n"} /\ \A i \in DOMAIN v : v[i] \in SymRunes
\* EscapeTagValue: as it is, the first-character test can never be true (`v[0] < 'a' && v[0] > 'z'`), so a value is
\* quoted only when a LATER character is not a symbol rune; the empty value prints as nothing.
TagValueTokens(v) ==
  IF EscapeTagValues
    THEN IF LexesAsSymbol(v) THEN <<[t |-> "val", v |-> v]>> ELSE <<StrToken(v)>>
    ELSE IF v = <<>> THEN <<>>
         ELSE IF \E i \in 2..Len(v) : v[i] \notin SymRunes THEN <<StrToken(v)>>
         ELSE IF LexesAsSymbol(v) THEN <<[t |-> "val", v |-> v]>>
         ELSE <<[t |-> "bad", v |-> <<>>]>>     \* lexes as INT / bad token: not a tagvalue

\* ------------------------------------------------------------------ the printer (token level)
P(ch)  == [t |-> "p", v |-> ch]
Arrow  == [t |-> "arrow", v |-> "->"]
KeyTok(key) == IF key \in {"#a", "#b", "#c", "#d", "@a"} THEN [t |-> "tagkey", v |-> key] ELSE [t |-> "sym", v |-> key]
IsCompound(q) == q.k \in {"and", "or"}

RECURSIVE UQ(_), UQJoin(_, _, _)
UQ(q) == CASE q.k = "keyed"  -> <<KeyTok(q.key)>>
           [] q.k = "tagged" -> <<KeyTok(q.key), P("=")>> \o TagValueTokens(q.v)
           [] q.k = "and"    -> UQJoin(q.qs, "&", 1)
           [] q.k = "or"     -> UQJoin(q.qs, "|", 1)
UQJoin(qs, op, i) ==
  LET c == qs[i]
      part == IF GroupQueries /\ IsCompound(c) THEN <<P("[")>> \o UQ(c) \o <<P("]")>> ELSE UQ(c)
  IN IF i = Len(qs) THEN part ELSE part \o <<P(op)>> \o UQJoin(qs, op, i + 1)

RECURSIVE ParamToks(_, _)
ParamToks(ps, i) == IF i > Len(ps) THEN <<>>
                    ELSE <<[t |-> "sym", v |-> ps[i]]>> \o (IF i < Len(ps) THEN <<P(",")>> ELSE <<>>) \o ParamToks(ps, i + 1)

\* at top level the printer drops a call without arguments, so such a call prints as whatever its function prints as
RECURSIVE PrintsAsPipeline(_)
PrintsAsPipeline(e) == e.k = "call" /\ (e.pipe \/ (e.args = <<>> /\ PrintsAsPipeline(e.f)))
GroupHead(f) == CASE GroupPipeHead = "none"   -> FALSE
                  [] GroupPipeHead = "direct" -> f.k = "call" /\ f.pipe
                  [] GroupPipeHead = "any"    -> PrintsAsPipeline(f)

RECURSIVE U(_, _), UCall(_, _, _), UParts(_, _)
UParts(as, i) == IF i > Len(as) THEN <<>> ELSE U(as[i], FALSE) \o UParts(as, i + 1)
UCall(f, as, top) ==
  IF as = <<>> /\ top THEN U(f, top)
  ELSE LET parts == U(f, FALSE) \o UParts(as, 1)
       IN IF top THEN parts ELSE <<P("(")>> \o parts \o <<P(")")>>
U(e, top) ==
  CASE e.k = "sym"    -> <<[t |-> "sym", v |-> e.c]>>
    [] e.k = "atom"   -> <<[t |-> "atom", v |-> e.c]>>
    [] e.k = "str"    -> <<StrToken(e.s)>>
    [] e.k = "point"  -> <<[t |-> "float", v |-> "lat"], P(","), [t |-> "float", v |-> "lng"]>>
    [] e.k = "tag"    -> <<KeyTok(e.key), P("=")>> \o TagValueTokens(e.v)
    [] e.k = "query"  -> <<P("[")>> \o UQ(e.q) \o <<P("]")>>
    [] e.k = "lambda" -> <<P("{")>> \o ParamToks(e.params, 1) \o <<Arrow>> \o U(e.body, TRUE) \o <<P("}")>>
    [] e.k = "call"   ->
         IF e.pipe
           THEN LET lhs == U(e.args[1], TRUE)
                    rhs == IF Len(e.args) = 1 /\ GroupHead(e.f)
                             THEN U(e.f, FALSE)
                             ELSE UCall(e.f, Tail(e.args), TRUE)
                    j   == lhs \o <<P("|")>> \o rhs
                IN IF top THEN j ELSE <<P("(")>> \o j \o <<P(")")>>
           ELSE UCall(e.f, e.args, top)
Unparse(e) == U(e, TRUE)

\* ------------------------------------------------------------------ the grammar (recursive descent over tokens)
EOF == [t |-> "eof", v |-> ""]
At(s, i) == IF i \in DOMAIN s THEN s[i] ELSE EOF
IsP(tok, ch) == tok.t = "p" /\ tok.v = ch
Fail == [ok |-> FALSE, t |-> ParseError, i |-> 0]
Ok(t, i) == [ok |-> TRUE, t |-> t, i |-> i]
StartsArg(tok) == tok.t \in {"sym", "atom", "float", "tagkey", "str"} \/ (tok.t = "p" /\ tok.v \in {"(", "{", "["})
TagAt(s, i) == At(s, i).t \in {"sym", "tagkey"} /\ IsP(At(s, i + 1), "=")
PipeOf(l, r) == Call(r, <<l>>, TRUE)                      \* api.Pipeline(left, right)

RECURSIVE PPipeline(_, _), PPipeRest(_, _, _), PCall(_, _), PArgs(_, _, _), PExpr(_, _), PParams(_, _, _), PQ(_, _)
PPipeline(s, i) == LET c == PCall(s, i) IN IF ~c.ok THEN Fail ELSE PPipeRest(s, c.t, c.i)
PPipeRest(s, acc, i) ==                                   \* pipeline: pipeline '|' call   (left associative)
  IF IsP(At(s, i), "|")
    THEN LET c == PCall(s, i + 1) IN IF ~c.ok THEN Fail ELSE PPipeRest(s, PipeOf(acc, c.t), c.i)
    ELSE Ok(acc, i)
PCall(s, i) ==                                            \* call: SYMBOL | SYMBOL args | expression
  LET tok == At(s, i) IN
  IF tok.t = "sym" /\ ~TagAt(s, i)
    THEN LET a == PArgs(s, <<>>, i + 1) IN IF ~a.ok THEN Fail ELSE Ok(Call(Sym(tok.v), a.t, FALSE), a.i)
    ELSE PExpr(s, i)
PArgs(s, acc, i) ==                                       \* args: args arg | arg ; arg: SYMBOL | expression
  LET tok == At(s, i) IN
  IF ~StartsArg(tok) THEN Ok(acc, i)
  ELSE IF tok.t = "sym" /\ ~TagAt(s, i) THEN PArgs(s, Append(acc, Sym(tok.v)), i + 1)
  ELSE LET e == PExpr(s, i) IN IF ~e.ok THEN Fail ELSE PArgs(s, Append(acc, e.t), e.i)
PParams(s, acc, i) ==                                     \* symbols ARROW
  IF At(s, i).t # "sym" THEN Fail
  ELSE IF IsP(At(s, i + 1), ",") THEN PParams(s, Append(acc, At(s, i).v), i + 2)
  ELSE IF At(s, i + 1).t = "arrow" THEN Ok(Append(acc, At(s, i).v), i + 2)
  ELSE Fail
PExpr(s, i) ==
  LET tok == At(s, i) IN
  CASE tok.t = "atom" -> Ok(Atom(tok.v), i + 1)
    [] tok.t = "str"  -> Ok(Str(tok.v), i + 1)
    [] tok.t = "float" -> IF IsP(At(s, i + 1), ",") /\ At(s, i + 2).t = "float" THEN Ok(PointL, i + 3) ELSE Ok(Atom("float"), i + 1)
    [] tok.t \in {"sym", "tagkey"} ->
         IF TagAt(s, i) /\ At(s, i + 2).t \in {"val", "str"} THEN Ok(Tag(tok.v, At(s, i + 2).v), i + 3) ELSE Fail
    [] tok.t = "p" /\ tok.v = "(" ->
         LET p == PPipeline(s, i + 1) IN IF p.ok /\ IsP(At(s, p.i), ")") THEN Ok(p.t, p.i + 1) ELSE Fail
    [] tok.t = "p" /\ tok.v = "{" ->
         LET ps == IF At(s, i + 1).t = "arrow" THEN Ok(<<>>, i + 2) ELSE PParams(s, <<>>, i + 1) IN
         IF ~ps.ok THEN Fail
         ELSE LET b == PPipeline(s, ps.i) IN IF b.ok /\ IsP(At(s, b.i), "}") THEN Ok(Lam(ps.t, b.t), b.i + 1) ELSE Fail
    [] tok.t = "p" /\ tok.v = "[" ->
         LET q == PQ(s, i + 1) IN IF q.ok /\ IsP(At(s, q.i), "]") THEN Ok(Qry(q.t), q.i + 1) ELSE Fail
    [] OTHER -> Fail
PQ(s, i) ==                                               \* query_expression: right recursive, no precedence
  LET tok == At(s, i)
      first == IF IsP(tok, "[")
                 THEN LET q == PQ(s, i + 1) IN IF q.ok /\ IsP(At(s, q.i), "]") THEN Ok(q.t, q.i + 1) ELSE Fail
               ELSE IF tok.t \in {"sym", "tagkey"}
                 THEN IF IsP(At(s, i + 1), "=")
                        THEN IF At(s, i + 2).t \in {"val", "str"} THEN Ok(Tagged(tok.v, At(s, i + 2).v), i + 3) ELSE Fail
                        ELSE Ok(Keyed(tok.v), i + 1)
               ELSE Fail
  IN IF ~first.ok THEN Fail
     ELSE IF IsP(At(s, first.i), "&")
       THEN LET r == PQ(s, first.i + 1) IN IF ~r.ok THEN Fail ELSE Ok(And(<<first.t, r.t>>), r.i)
     ELSE IF IsP(At(s, first.i), "|")
       THEN LET r == PQ(s, first.i + 1) IN IF ~r.ok THEN Fail ELSE Ok(Or(<<first.t, r.t>>), r.i)
     ELSE first
Parse(s) == IF \E i \in DOMAIN s : s[i].t = "bad" THEN ParseError
            ELSE LET p == PPipeline(s, 1) IN IF p.ok /\ p.i = Len(s) + 1 THEN p.t ELSE ParseError

\* ------------------------------------------------------------------ the allowed equivalence
RECURSIVE Norm(_), NormSeq(_, _), NormQ(_), FlatQ(_, _, _), Unwrap(_)
Mk(f, as) == IF as = <<>> THEN f ELSE [k |-> "call", f |-> f, args |-> as]
NormSeq(as, i) == IF i > Len(as) THEN <<>> ELSE <<Norm(as[i])>> \o NormSeq(as, i + 1)
FlatQ(op, qs, i) == IF i > Len(qs) THEN <<>>
                    ELSE LET c == NormQ(qs[i]) IN (IF c.k = op THEN c.qs ELSE <<c>>) \o FlatQ(op, qs, i + 1)
NormQ(q) == IF IsCompound(q) THEN [k |-> q.k, qs |-> FlatQ(q.k, q.qs, 1)] ELSE q
Unwrap(f) == IF f.k = "call" /\ ~f.pipe /\ f.args = <<>> THEN Unwrap(f.f) ELSE f     \* zero-argument call == function
Norm(e) ==
  CASE e.k = "call" ->
         LET h == Unwrap(e.f) IN
         IF e.pipe /\ h.k = "call" /\ ~h.pipe /\ h.args # <<>>
           THEN Mk(Norm(h.f), NormSeq(e.args, 1) \o NormSeq(h.args, 1))        \* a | F rest  ==  F a rest
           ELSE Mk(Norm(e.f), NormSeq(e.args, 1))                              \* zero-argument call == function
    [] e.k = "lambda" -> [k |-> "lambda", params |-> e.params, body |-> Norm(e.body)]
    [] e.k = "query"  -> Qry(NormQ(e.q))
    [] OTHER -> e

Back(t)      == Parse(Unparse(t))
RoundTrip(t) == LET b == Back(t) IN b # ParseError /\ Norm(b) = Norm(t)
Pred(t)      == LET b == Back(t) IN IF b = ParseError THEN "error" ELSE IF Norm(b) = Norm(t) THEN "ok" ELSE "differs"

\* ------------------------------------------------------------------ enumeration: query trees by number of leaves
QLeaves == {Keyed("#a"), Keyed("b"), Tagged("#c", <<"a">>)}
RECURSIVE QSeqs(_, _), QTreesN(_)
\* sequences of k >= 1 query trees with m leaves in total
QSeqs(k, m) == IF k = 1 THEN {<<q>> : q \in QTreesN(m)}
               ELSE UNION {{<<h>> \o r : h \in QTreesN(n), r \in QSeqs(k - 1, m - n)} : n \in 1..(m - (k - 1))}
QTreesN(m) == IF m = 1 THEN QLeaves
              ELSE UNION {{And(qs) : qs \in QSeqs(k, m)} \cup {Or(qs) : qs \in QSeqs(k, m)} : k \in 2..(IF m < 3 THEN m ELSE 3)}
QTrees == UNION {QTreesN(m) : m \in 1..MaxQSize}

\* ------------------------------------------------------------------ enumeration: expression shapes by number of nodes
\* Leaf alphabet for SHAPES: one representative of every token pattern that interacts with the grammar
\* (bare symbol; one-token literal; FLOAT ',' FLOAT; SYMBOL '=' value; bracketed query containing '|').
\* The literal classes themselves are enumerated separately (Strs, QTrees, and the class tables of the harness).
ShapeLeaves == {Sym("x"), Atom("x"), PointL, Tag("a", <<"a">>), Qry(Or(<<Keyed("#a"), Keyed("#b")>>))}
ParamSeqs == {<<>>, <<"x">>, <<"x", "y">>}
\* No recursion here on purpose: TLC evaluates and caches the constant definitions T1..T7 once.
\* S is the sequence <<T1, ..., T(n-1)>> of the smaller shapes.
Seqs1(m, S) == IF m < 1 THEN {} ELSE {<<h>> : h \in S[m]}
Seqs2(m, S) == UNION {{<<h1, h2>> : h1 \in S[a], h2 \in S[m - a]} : a \in 1..(m - 1)}
Seqs3(m, S) == UNION {{<<h1, h2, h3>> : h1 \in S[ab[1]], h2 \in S[ab[2]], h3 \in S[m - ab[1] - ab[2]]}
                        : ab \in {x \in (1..m) \X (1..m) : x[1] + x[2] < m}}
ArgLists(m, S) == (IF m = 0 THEN {<<>>} ELSE {})
                  \cup (IF MaxArgs >= 1 THEN Seqs1(m, S) ELSE {})
                  \cup (IF MaxArgs >= 2 THEN Seqs2(m, S) ELSE {})
                  \cup (IF MaxArgs >= 3 THEN Seqs3(m, S) ELSE {})
Heads(hn, S) == IF hn = 1 THEN {Sym("f")}
                ELSE IF ExprHeads THEN {h \in S[hn] : h.k \in {"call", "lambda"}} ELSE {}
\* argument lists with m nodes in total, paired with the Pipelined flag (a pipelined call has a first argument)
ArgPipes(m, S) == LET A == ArgLists(m, S)
                  IN {<<as, FALSE>> : as \in A} \cup {<<as, TRUE>> : as \in A \ {<<>>}}
Build(n, S) ==
  LET calls == UNION {{Call(h, x[1], x[2]) : h \in Heads(hn, S), x \in ArgPipes(n - 1 - hn, S)} : hn \in 1..(n - 1)}
      lams  == {Lam(ps, b) : ps \in ParamSeqs, b \in S[n - 1]}
  IN calls \cup lams
T1 == ShapeLeaves
T2 == IF MaxSize >= 2 THEN Build(2, <<T1>>) ELSE {}
T3 == IF MaxSize >= 3 THEN Build(3, <<T1, T2>>) ELSE {}
T4 == IF MaxSize >= 4 THEN Build(4, <<T1, T2, T3>>) ELSE {}
T5 == IF MaxSize >= 5 THEN Build(5, <<T1, T2, T3, T4>>) ELSE {}
T6 == IF MaxSize >= 6 THEN Build(6, <<T1, T2, T3, T4, T5>>) ELSE {}
T7 == IF MaxSize >= 7 THEN Build(7, <<T1, T2, T3, T4, T5, T6>>) ELSE {}
TF(n) == CASE n = 1 -> T1 [] n = 2 -> T2 [] n = 3 -> T3 [] n = 4 -> T4 [] n = 5 -> T5 [] n = 6 -> T6 [] n = 7 -> T7
Shapes == UNION {TF(n) : n \in 1..MaxSize}

\* a pipelined call whose function is a non-symbol WITH further arguments prints `a | (g 1) 2`, which no production
\* accepts; so does any call `(g 1) 2`.  HeadOK marks the trees the grammar can express at all.
RECURSIVE HeadOK(_), AllOK(_, _)
AllOK(as, i) == i > Len(as) \/ (HeadOK(as[i]) /\ AllOK(as, i + 1))
HeadOK(e) == CASE e.k = "call" ->
                    /\ HeadOK(e.f) /\ AllOK(e.args, 1)
                    /\ (e.f.k = "sym" \/ Len(e.args) = (IF e.pipe THEN 1 ELSE 0))
               [] e.k = "lambda" -> HeadOK(e.body)
               [] OTHER -> TRUE

\* ------------------------------------------------------------------ model checking / export
\* One "state" per enumerated object; no transitions.  `what` selects the enumeration.
VARIABLE obj
Init == \/ "shape" \in Kinds /\ \E t \in Shapes : obj = [what |-> "shape", t |-> t]
        \/ "query" \in Kinds /\ \E q \in QTrees : obj = [what |-> "query", t |-> Qry(q)]
        \/ "string" \in Kinds /\ \E s \in Strs : obj = [what |-> "string", t |-> Str(s)]
        \/ "tagvalue" \in Kinds /\ \E s \in Strs : obj = [what |-> "tagvalue", t |-> Tag("#a", s)]
        \/ "queryvalue" \in Kinds /\ \E s \in Strs : obj = [what |-> "queryvalue", t |-> Qry(Tagged("#a", s))]
Next == FALSE /\ UNCHANGED obj      \* no transitions: every enumerated object is an initial state
Spec == Init /\ [][Next]_obj

\* the design-level property: everything the grammar can express at all round-trips
RoundTrips == HeadOK(obj.t) => RoundTrip(obj.t)
\* export: every enumerated object with the model's prediction and the tree the model says comes back
Emit == LET b == Back(obj.t)
            pred == IF b = ParseError THEN "error" ELSE IF Norm(b) = Norm(obj.t) THEN "ok" ELSE "differs"
        IN PrintT(<<"CASE", ToJson([what |-> obj.what, t |-> obj.t, pred |-> pred, headok |-> HeadOK(obj.t), back |-> b])>>)
====
