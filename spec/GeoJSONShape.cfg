SPECIFICATION Spec
CONSTANTS
  Places = {"london", "sydney", "origin", "arctic", "antimeridian"}
  Orients = {"rfc", "rev", "ccw"}
  PropsAll = {"none", "empty", "one", "two", "idx"}
  MaxParts = 3
INVARIANT Inv
CHECK_DEADLOCK FALSE
