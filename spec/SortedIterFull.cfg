SPECIFICATION Spec
CONSTANTS
  Keys = {1, 2, 3}
  Targets = {0, 1, 2, 3, 4}
  Tokens = {"a", "ab", "b"}
  RepToken = "a"
  MaxHoles = 0
  Queries <- QuickQueries
  ExportQueries <- QuickQueries
  Indices <- AllIndices
INVARIANTS TypeOK DenIsDenotation ValueInDenotation
PROPERTIES Monotone NextStrict NoSkip FailsOnlyWhenExhausted Frozen
ACTION_CONSTRAINT Emit
VIEW View
CHECK_DEADLOCK FALSE
