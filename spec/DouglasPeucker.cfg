\* every oracle for lines of 2..5 points (288 for n = 5); termination under fairness
SPECIFICATION FairSpec
CONSTANTS
  MaxN = 5
  Mode = "full"
INVARIANT TypeOK Equal Shape StackCovers
PROPERTY Terminates
CHECK_DEADLOCK FALSE
