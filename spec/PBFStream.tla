---- MODULE PBFStream ----
(* osm/pbf.go: the PBF Writer and ReadPBFWithOptions as one state machine (property C27).

   Writer side: one action per public call (WriteNode / WriteWay / WriteRelation / Flush / the final
   Flush = Close).  The variable `w` is a record with the fields the real Writer has:
     st                 writer.state            "new" | "nodes" | "ways" | "rels"
     dense              writer.dense            delta coded ids / lats / lons and the keys-vals stream
     ways, rels         writer.group.Ways/.Relations   encoded elements of the group being filled
     strtab             writer.block.Stringtable.S     (strtab[1] = "" is reserved; index = position-1;
                        writer.strings is exactly the map  strtab[i] |-> i-1  for i >= 2, both are
                        reset together in resetBlock and extended together in lookupString)
     lastID/lastLat/lastLon   the dense delta-coding state, reset when a node group is started
     file               the blocks written so far (one PrimitiveGroup of one kind per block)
   A group is flushed when the element kind changes, when it holds G elements (elementsPerGroup;
   8000 in the code, a small constant here), or by Flush.

   Reader side: `Cores` goroutines take blocks from the file in order (channel `c`), decode them
   (readDenseNodes / fillWay / fillRelation) and call emit element by element (Deliver).

   Element content is a fixed function of the element's position in `written` (patterns with
   negative / decreasing / repeated ids, coordinates that are not multiples of the granularity,
   empty and repeated strings), so the state space is driven by the call sequence only.

   `ix` fields and got/arrival are ghost bookkeeping (which written element a delivery is).       *)
EXTENDS Integers, Sequences, FiniteSets, TLC, Json
CONSTANTS G,        \* elements per group
          MaxOps,   \* longest call sequence (excluding the final Flush)
          Cores,    \* reader goroutines
          Gran      \* granularity in nanodegrees (PrimitiveBlock default 100)
VARIABLES ops, written, w, phase, nextb, worker, got, arrival, arrivalE
vars == <<ops, written, w, phase, nextb, worker, got, arrival, arrivalE>>

\* ---------------------------------------------------------------- content patterns
IdPat  == <<5, -3, 7, 7, 2, 9, -8, 1>>
LatPat == <<150, -250, 99, -99, 0, 1234, -100, 5>>          \* nanodegrees
LonPat == <<-1, 199, -199, 100, -100, 12345, 7, -7>>
TagPat == << <<>>, << <<"k", "v">> >>, << <<"", "">> >>, << <<"k", "v">>, <<"k2", "v">> >>,
             <<>>, << <<"v", "k">> >>, << <<"k", "">> >>, << <<"k", "v">> >> >>
RefPat == << <<3, 1, 4>>, <<>>, <<-2, -2>>, <<9>>, <<1, 2>>, <<>>, <<5, -5>>, <<0>> >>
MemPat == << << [t |-> "n", id |-> 4, role |-> ""], [t |-> "w", id |-> -1, role |-> "outer"] >>,
             <<>>,
             << [t |-> "r", id |-> 7, role |-> "outer"] >>,
             << [t |-> "w", id |-> 2, role |-> "k"], [t |-> "w", id |-> 2, role |-> ""] >>,
             <<>>, << [t |-> "n", id |-> -9, role |-> "v"] >>, <<>>, << [t |-> "r", id |-> 0, role |-> ""] >> >>
ASSUME MaxOps <= Len(IdPat)

Element(kind, i) ==
  CASE kind = "n" -> [k |-> "n", id |-> IdPat[i], lat |-> LatPat[i], lon |-> LonPat[i], tags |-> TagPat[i]]
    [] kind = "w" -> [k |-> "w", id |-> IdPat[i], refs |-> RefPat[i], tags |-> TagPat[i]]
    [] kind = "r" -> [k |-> "r", id |-> IdPat[i], mem |-> MemPat[i], tags |-> TagPat[i]]

\* ---------------------------------------------------------------- encoding helpers
TruncDiv(a, b) == IF a >= 0 THEN a \div b ELSE -((-a) \div b)     \* Go integer division
EncAngle(nano) == TruncDiv(nano - 0, Gran)                         \* encodeAngle, offset 0
DecAngle(cell) == 0 + Gran * cell                                  \* decodeAngle

RECURSIVE Deltas(_, _)
Deltas(s, last) == IF s = <<>> THEN <<>> ELSE <<Head(s) - last>> \o Deltas(Tail(s), Head(s))
RECURSIVE Sums(_, _)
Sums(d, last) == IF d = <<>> THEN <<>> ELSE <<Head(d) + last>> \o Sums(Tail(d), Head(d) + last)

\* lookupString applied to a list of strings, left to right
RECURSIVE Intern(_, _)
Intern(tab, strs) ==
  IF strs = <<>> THEN [tab |-> tab, idx |-> <<>>]
  ELSE LET s    == Head(strs)
           pos  == {i \in 2..Len(tab) : tab[i] = s}
           i    == IF pos # {} THEN (CHOOSE p \in pos : TRUE) - 1 ELSE Len(tab)
           tab1 == IF pos # {} THEN tab ELSE Append(tab, s)
           r    == Intern(tab1, Tail(strs))
       IN [tab |-> r.tab, idx |-> <<i>> \o r.idx]

RECURSIVE FlatTags(_)
FlatTags(t) == IF t = <<>> THEN <<>> ELSE <<Head(t)[1], Head(t)[2]>> \o FlatTags(Tail(t))
RECURSIVE Pairs(_)
Pairs(s) == IF s = <<>> THEN <<>> ELSE << <<s[1], s[2]>> >> \o Pairs(SubSeq(s, 3, Len(s)))
Str(tab, i) == tab[i + 1]
Resolve(tab, ps) == [j \in DOMAIN ps |-> <<Str(tab, ps[j][1]), Str(tab, ps[j][2])>>]

EmptyDense == [id |-> <<>>, lat |-> <<>>, lon |-> <<>>, kv |-> <<>>, ix |-> <<>>]

\* ---------------------------------------------------------------- the writer
ResetBlock(x) == [x EXCEPT !.strtab = <<"">>, !.dense = EmptyDense, !.ways = <<>>, !.rels = <<>>]   \* resetBlock()

Count(b) == CASE b.k = "n" -> Len(b.dense.id) [] b.k = "w" -> Len(b.ways) [] b.k = "r" -> Len(b.rels)

FlushW(x) ==                                                               \* Writer.Flush
  IF x.st = "new" THEN ResetBlock(x)
  ELSE LET b == [k |-> IF x.st = "nodes" THEN "n" ELSE IF x.st = "ways" THEN "w" ELSE "r",
                 strtab |-> x.strtab, dense |-> x.dense, ways |-> x.ways, rels |-> x.rels]
       IN ResetBlock([x EXCEPT !.file = Append(@, b), !.st = "new"])

WriteNodeW(x, e, ix) ==                                                    \* Writer.WriteNode
  LET x1 == IF x.st # "nodes"
            THEN [FlushW(x) EXCEPT !.st = "nodes", !.dense = EmptyDense,
                                   !.lastID = 0, !.lastLat = 0, !.lastLon = 0]
            ELSE x
      dlat == EncAngle(e.lat) - x1.lastLat                                 \* encodeDeltaEncodedAngle
      dlon == EncAngle(e.lon) - x1.lastLon
      t    == Intern(x1.strtab, FlatTags(e.tags))
      x2   == [x1 EXCEPT !.dense = [id  |-> Append(x1.dense.id, e.id - x1.lastID),
                                    lat |-> Append(x1.dense.lat, dlat),
                                    lon |-> Append(x1.dense.lon, dlon),
                                    kv  |-> x1.dense.kv \o t.idx \o <<0>>,
                                    ix  |-> Append(x1.dense.ix, ix)],
                         !.lastID = e.id, !.lastLat = x1.lastLat + dlat, !.lastLon = x1.lastLon + dlon,
                         !.strtab = t.tab]
  IN IF Len(x2.dense.id) >= G THEN FlushW(x2) ELSE x2

WriteWayW(x, e, ix) ==                                                     \* Writer.WriteWay
  LET x1 == IF x.st # "ways" THEN [FlushW(x) EXCEPT !.st = "ways", !.ways = <<>>] ELSE x
      t  == Intern(x1.strtab, FlatTags(e.tags))
      ew == [id |-> e.id, refs |-> Deltas(e.refs, 0), kv |-> Pairs(t.idx), ix |-> ix]
      x2 == [x1 EXCEPT !.ways = Append(@, ew), !.strtab = t.tab]
  IN IF Len(x2.ways) >= G THEN FlushW(x2) ELSE x2

WriteRelationW(x, e, ix) ==                                                \* Writer.WriteRelation
  LET x1 == IF x.st # "rels" THEN [FlushW(x) EXCEPT !.st = "rels", !.rels = <<>>] ELSE x
      ro == Intern(x1.strtab, [j \in DOMAIN e.mem |-> e.mem[j].role])
      t  == Intern(ro.tab, FlatTags(e.tags))
      er == [id |-> e.id, memids |-> Deltas([j \in DOMAIN e.mem |-> e.mem[j].id], 0),
             types |-> [j \in DOMAIN e.mem |-> e.mem[j].t], roles |-> ro.idx, kv |-> Pairs(t.idx), ix |-> ix]
      x2 == [x1 EXCEPT !.rels = Append(@, er), !.strtab = t.tab]
  IN IF Len(x2.rels) >= G THEN FlushW(x2) ELSE x2

\* ---------------------------------------------------------------- the reader's decoding
RECURSIVE TakeTags(_)
TakeTags(kv) == IF kv = <<>> THEN [tags |-> <<>>, rest |-> <<>>]
                ELSE IF Head(kv) = 0 THEN [tags |-> <<>>, rest |-> Tail(kv)]
                ELSE LET r == TakeTags(SubSeq(kv, 3, Len(kv)))
                     IN [tags |-> << <<kv[1], kv[2]>> >> \o r.tags, rest |-> r.rest]

RECURSIVE DenseFrom(_, _, _, _, _, _)
DenseFrom(b, i, lid, llat, llon, kv) ==                                    \* readDenseNodes
  IF i > Len(b.dense.id) THEN <<>>
  ELSE LET id == b.dense.id[i] + lid
           la == b.dense.lat[i] + llat
           lo == b.dense.lon[i] + llon
           t  == TakeTags(kv)
       IN << [e |-> [k |-> "n", id |-> id, lat |-> DecAngle(la), lon |-> DecAngle(lo),
                     tags |-> Resolve(b.strtab, t.tags)], ix |-> b.dense.ix[i]] >>
          \o DenseFrom(b, i + 1, id, la, lo, t.rest)

DecodeBlock(b) ==
  CASE b.k = "n" -> DenseFrom(b, 1, 0, 0, 0, b.dense.kv)
    [] b.k = "w" -> [j \in DOMAIN b.ways |->                                \* fillWay
                       [e |-> [k |-> "w", id |-> b.ways[j].id, refs |-> Sums(b.ways[j].refs, 0),
                               tags |-> Resolve(b.strtab, b.ways[j].kv)], ix |-> b.ways[j].ix]]
    [] b.k = "r" -> [j \in DOMAIN b.rels |->                                \* fillRelation
                       LET r == b.rels[j] ids == Sums(r.memids, 0)
                       IN [e |-> [k |-> "r", id |-> r.id,
                                  mem |-> [m \in DOMAIN ids |-> [t |-> r.types[m], id |-> ids[m], role |-> Str(b.strtab, r.roles[m])]],
                                  tags |-> Resolve(b.strtab, r.kv)], ix |-> r.ix]]

\* ---------------------------------------------------------------- state machine
Workers == 1..Cores
Idle == [b |-> 0, p |-> 0]
InitW == [st |-> "new", dense |-> EmptyDense, ways |-> <<>>, rels |-> <<>>, strtab |-> <<"">>,
          lastID |-> 0, lastLat |-> 0, lastLon |-> 0, file |-> <<>>]

Init == /\ ops = <<>> /\ written = <<>> /\ w = InitW /\ phase = "writing"
        /\ nextb = 1 /\ worker = [g \in Workers |-> Idle] /\ got = [g \in Workers |-> <<>>]
        /\ arrival = <<>> /\ arrivalE = <<>>

ReaderUnchanged == UNCHANGED <<nextb, worker, got, arrival, arrivalE>>

Write(kind) ==
  /\ phase = "writing" /\ Len(ops) < MaxOps
  /\ LET ix == Len(written) + 1
         e  == Element(kind, ix)
     IN /\ written' = Append(written, e)
        /\ w' = CASE kind = "n" -> WriteNodeW(w, e, ix)
                  [] kind = "w" -> WriteWayW(w, e, ix)
                  [] kind = "r" -> WriteRelationW(w, e, ix)
  /\ ops' = Append(ops, kind)
  /\ UNCHANGED phase /\ ReaderUnchanged

Flush ==
  /\ phase = "writing" /\ Len(ops) < MaxOps
  /\ w' = FlushW(w) /\ ops' = Append(ops, "f")
  /\ UNCHANGED <<written, phase>> /\ ReaderUnchanged

BlockList(f) == [b \in DOMAIN f |-> [k |-> f[b].k, n |-> Count(f[b])]]

Close ==                                   \* the final Flush; the file is complete, reading starts
  /\ phase = "writing"
  /\ w' = FlushW(w) /\ phase' = "reading"
  /\ PrintT(<<"CASE", ToJson([ops |-> ops, blocks |-> BlockList(w'.file)])>>)
  /\ UNCHANGED <<ops, written>> /\ ReaderUnchanged

Take(g) ==                                 \* b := <-c
  /\ phase = "reading" /\ worker[g] = Idle /\ nextb <= Len(w.file)
  /\ worker' = [worker EXCEPT ![g] = [b |-> nextb, p |-> 1]]
  /\ nextb' = nextb + 1
  /\ UNCHANGED <<ops, written, w, phase, got, arrival, arrivalE>>

Deliver(g) ==                              \* emit(e, g)
  /\ phase = "reading" /\ worker[g] # Idle
  /\ LET d == DecodeBlock(w.file[worker[g].b])
         x == d[worker[g].p]
     IN /\ got' = [got EXCEPT ![g] = Append(@, x.ix)]
        /\ arrival' = Append(arrival, x.ix)
        /\ arrivalE' = Append(arrivalE, x.e)
        /\ worker' = [worker EXCEPT ![g] = IF worker[g].p = Len(d) THEN Idle ELSE [@ EXCEPT !.p = @ + 1]]
  /\ UNCHANGED <<ops, written, w, phase, nextb>>

Finish ==
  /\ phase = "reading" /\ nextb > Len(w.file) /\ \A g \in Workers : worker[g] = Idle
  /\ phase' = "done"
  /\ UNCHANGED <<ops, written, w, nextb, worker, got, arrival, arrivalE>>

Next == \/ \E kind \in {"n", "w", "r"} : Write(kind)
        \/ Flush \/ Close
        \/ \E g \in Workers : Take(g) \/ Deliver(g)
        \/ Finish
Spec == Init /\ [][Next]_vars

\* ---------------------------------------------------------------- properties of the design
Abs(x) == IF x < 0 THEN -x ELSE x
Match(wr, rd) ==
  /\ rd.k = wr.k /\ rd.id = wr.id /\ rd.tags = wr.tags
  /\ wr.k = "n" => Abs(rd.lat - wr.lat) < Gran /\ Abs(rd.lon - wr.lon) < Gran    \* within one granularity step
  /\ wr.k = "w" => rd.refs = wr.refs
  /\ wr.k = "r" => rd.mem = wr.mem

Increasing(s) == \A i, j \in DOMAIN s : i < j => s[i] < s[j]

\* what is delivered is what was written (IDs, tags, members, roles, coordinates within one step)
ContentOK == \A j \in DOMAIN arrival : Match(written[arrival[j]], arrivalE[j])
\* each goroutine sees its elements in written order, nothing twice
GoroutineOrder == \A g \in Workers : Increasing(got[g])
NoDuplicates == \A i, j \in DOMAIN arrival : i # j => arrival[i] # arrival[j]
\* at the end everything written has been delivered; with one core in the written order
Complete == phase = "done" => {arrival[j] : j \in DOMAIN arrival} = 1..Len(written)
SequentialOrder == Cores = 1 => Increasing(arrival)
\* the file holds the elements in written order, no group larger than G, no empty block
FileOK == phase # "writing" =>
            /\ \A b \in DOMAIN w.file : Count(w.file[b]) \in 1..G
            /\ LET all == [b \in DOMAIN w.file |-> DecodeBlock(w.file[b])]
               IN \A b1, b2 \in DOMAIN all : \A i \in DOMAIN all[b1], j \in DOMAIN all[b2] :
                     (b1 < b2 \/ (b1 = b2 /\ i < j)) => all[b1][i].ix < all[b2][j].ix
\* NOT a property of the design for Cores > 1 (checked with PBFStreamOrder.cfg, expected to be violated):
GlobalOrder == Increasing(arrival)
====
