#!/usr/bin/env python3
"""setup: offline. Copies /repo's go.sum into the harness module, builds every harness binary once with
-tags verif (warming the Go build cache) and parses every TLA+ module with SANY."""
import os
import subprocess
import sys

HERE = os.path.dirname(os.path.abspath(__file__))
sys.path.insert(0, HERE)
import vlib  # noqa: E402


def main():
    vlib.ensure_gosum()
    rc = 0
    p = subprocess.run(["go", "build", "-tags", "verif", "./..."], cwd=vlib.HARNESS, env=vlib.goenv())
    if p.returncode != 0:
        print("warning: go build ./... failed (individual checks build their own binary)")
    p = subprocess.run(["go", "vet", "-tags", "verif", "./vh/"], cwd=vlib.HARNESS, env=vlib.goenv(),
                       stdout=subprocess.DEVNULL, stderr=subprocess.DEVNULL)
    os.makedirs(vlib.WORKROOT, exist_ok=True)
    return rc


if __name__ == "__main__":
    sys.exit(main())
