"""Transition graphs exported from TLC (EDGE lines: {from, ev, to}) and path generation over them."""
import random
from vlib import canon


class Graph:
    def __init__(self, edges, inits=None):
        self.edges = edges
        self.out = {}
        for e in edges:
            self.out.setdefault(canon(e["from"]), []).append(e)
        self.nodes = set(self.out.keys()) | {canon(e["to"]) for e in edges}
        self.inits = inits

    def successors(self, state):
        return self.out.get(canon(state), [])

    def all_paths(self, init, depth):
        """Every path of exactly 1..depth edges from init (prefixes are covered by longer paths,
        so only maximal paths are yielded: length == depth or dead end)."""
        stack = [(init, [])]
        while stack:
            st, path = stack.pop()
            succ = self.successors(st) if len(path) < depth else []
            if not succ:
                if path:
                    yield path
                continue
            for e in succ:
                stack.append((e["to"], path + [e]))

    def random_walk(self, init, length, rng):
        st, path = init, []
        for _ in range(length):
            succ = self.successors(st)
            if not succ:
                break
            e = rng.choice(succ)
            path.append(e)
            st = e["to"]
        return path

    def covering_walks(self, inits, length, rng, budget):
        """Random walks biased towards edges not yet taken, until every edge was taken or budget walks made."""
        seen = set()
        total = len(self.edges)
        walks = []
        ids = {id(e): i for i, e in enumerate(self.edges)}
        for _ in range(budget):
            st = rng.choice(inits)
            path = []
            for _ in range(length):
                succ = self.successors(st)
                if not succ:
                    break
                fresh = [e for e in succ if ids[id(e)] not in seen]
                e = rng.choice(fresh) if fresh else rng.choice(succ)
                seen.add(ids[id(e)])
                path.append(e)
                st = e["to"]
            if path:
                walks.append((path[0]["from"], path))
            if len(seen) == total:
                break
        return walks, len(seen)
