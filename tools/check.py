#!/usr/bin/env python3
"""check.py <property-id> [--tier quick|thorough] [--replay path]

Runs the check for one property against /repo's current working tree.
exit 0: property held on everything explored (known findings are printed as KNOWN-FINDING lines)
exit 1: a line `VIOLATION property=<id> replay=<path>` was printed
exit 2: inconclusive (tool failure, timeout) -- never a verdict.
"""
import argparse
import importlib
import json
import os
import sys
import traceback

sys.path.insert(0, os.path.dirname(os.path.abspath(__file__)))
import vlib  # noqa: E402


def main():
    ap = argparse.ArgumentParser()
    ap.add_argument("prop")
    ap.add_argument("--tier", default=os.environ.get("VERIF_TIER", "quick"), choices=["quick", "thorough"])
    ap.add_argument("--replay", default=None)
    a = ap.parse_args()
    seed = int(os.environ.get("VERIF_SEED", "1") or "1")
    ctx = vlib.Ctx(a.prop, a.tier, seed, a.replay)
    try:
        mod = importlib.import_module("props." + a.prop)
    except ModuleNotFoundError:
        print("no check registered for " + a.prop)
        return 2
    try:
        if a.replay:
            if not hasattr(mod, "replay"):
                print("replay not supported for %s; re-running the check" % a.prop)
                rc = mod.run(ctx)
            else:
                rc = mod.replay(ctx, json.load(open(a.replay)))
        else:
            rc = mod.run(ctx)
    except vlib.Inconclusive as e:
        print("INCONCLUSIVE property=%s: %s" % (a.prop, e))
        return 2
    except Exception:
        traceback.print_exc()
        print("INCONCLUSIVE property=%s: internal error in the check" % a.prop)
        return 2
    return rc if rc is not None else 0


if __name__ == "__main__":
    sys.exit(main())
