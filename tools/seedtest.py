#!/usr/bin/env python3
"""seedtest.py <PROP> <change-dir> [--checks C39,C12] [--tier quick] [--demo-dest <pkg dir rel. to module>] [--demo-run <regex>]

Confirms a seeded breaking change written by a fresh sub-agent (which saw only the property text) and tries the
checks on it, without touching /repo:

  1. fresh scratch worktree of /repo HEAD under /tmp, `git apply patch.diff`
  2. the change compiles and the existing tests of the touched packages (and --extra-tests) still pass
  3. the agent's demonstration fails with the change and passes without it
  4. the property's check (or --checks) is run against the worktree (VERIF_REPO): exit 1 + VIOLATION = caught
  5. everything is recorded under /verif/seeded/<PROP>-<name>/ (patch.diff, demo, meta.json with what was run)
The worktree and its build output are removed at the end.
"""
import argparse
import glob
import json
import os
import re
import shutil
import subprocess
import sys
import time

VERIF = os.path.dirname(os.path.dirname(os.path.abspath(__file__)))
GOENV = dict(os.environ, GOFLAGS="-mod=mod", GOPROXY="off", GOSUMDB="off", GOTOOLCHAIN="local")


def sh(cmd, cwd=None, env=None, timeout=3000):
    p = subprocess.run(cmd, cwd=cwd, env=env or GOENV, shell=isinstance(cmd, str), stdout=subprocess.PIPE,
                       stderr=subprocess.STDOUT, text=True, errors="replace", timeout=timeout)
    return p.returncode, p.stdout


def main():
    ap = argparse.ArgumentParser()
    ap.add_argument("prop")
    ap.add_argument("change")
    ap.add_argument("--checks", default=None)
    ap.add_argument("--tier", default="quick")
    ap.add_argument("--demo-dest", default=None)
    ap.add_argument("--demo-run", default=None)
    ap.add_argument("--demo-timeout", type=int, default=300)
    ap.add_argument("--demo-tags", default="")
    ap.add_argument("--demo-flags", default="")
    ap.add_argument("--extra-tests", default="")
    ap.add_argument("--name", default=None)
    ap.add_argument("--seed", default="1")
    a = ap.parse_args()
    change = os.path.abspath(a.change)
    name = a.name or (a.prop + "-" + os.path.basename(change.rstrip("/")))
    out = os.path.join(VERIF, "seeded", name)
    os.makedirs(out, exist_ok=True)
    meta_in = {}
    if os.path.exists(os.path.join(change, "meta.json")):
        try:
            meta_in = json.load(open(os.path.join(change, "meta.json")))
        except Exception:
            meta_in = {}
    wt = "/tmp/st-" + name
    wk = "/tmp/stw-" + name
    sh(["git", "-C", "/repo", "worktree", "remove", "--force", wt])
    shutil.rmtree(wt, ignore_errors=True)
    shutil.rmtree(wk, ignore_errors=True)
    rc, o = sh(["git", "-C", "/repo", "worktree", "add", "-q", "--detach", wt, "HEAD"])
    if rc != 0:
        print("cannot create worktree:", o)
        return 2
    mod = os.path.join(wt, "src/diagonal.works/b6")
    result = {"property": a.prop, "name": name, "summary": meta_in.get("summary"), "needs_to_manifest": meta_in.get("needs_to_manifest"),
              "agent_meta": meta_in, "ran": []}
    try:
        patch = os.path.join(change, "patch.diff")
        rc, o = sh(["git", "-C", wt, "apply", "--check", patch])
        if rc != 0:
            result["status"] = "patch does not apply to /repo HEAD: " + o[-500:]
            return finish(result, out, change)
        sh(["git", "-C", wt, "apply", patch])
        rc, files = sh(["git", "-C", wt, "diff", "--name-only"])
        touched = [f for f in files.split() if f.endswith(".go")]
        pkgs = sorted({"./" + os.path.relpath(os.path.dirname(os.path.join(wt, f)), mod) + "/" for f in touched})
        pkgs = [p.replace("././/", "./").replace("././", "./") for p in pkgs]
        for extra in a.extra_tests.split(","):
            if extra.strip():
                pkgs.append(extra.strip())
        result["touched"] = touched
        # 2. compiles, existing tests pass
        ok_tests = True
        for p in pkgs:
            rc, o = sh("go test -vet=off -count=1 -timeout 20m %s 2>&1 | tail -15" % p, cwd=mod)
            passed = ("\nok " in "\n" + o or o.startswith("ok ")) and "FAIL" not in o
            result["ran"].append({"cmd": "go test -vet=off -count=1 " + p, "passed": passed, "tail": o[-400:]})
            ok_tests = ok_tests and passed
        result["existing_tests_pass"] = ok_tests
        # 3. demonstration
        demos = [f for f in glob.glob(os.path.join(change, "*")) if f.endswith(".go")]
        demo_info = {"files": [os.path.basename(d) for d in demos]}
        if demos and a.demo_dest is not None:
            dest = os.path.join(mod, a.demo_dest)
            os.makedirs(dest, exist_ok=True)
            for d in demos:
                shutil.copy(d, dest)
            run = "go test -vet=off -count=1 %s -timeout %ds %s ./%s/ 2>&1 | tail -25" % (
((("-tags " + a.demo_tags) if a.demo_tags else "") + " " + a.demo_flags).strip(), a.demo_timeout, ("-run '%s'" % a.demo_run) if a.demo_run else "", a.demo_dest.strip("/") or ".")
            rc, o = sh(run, cwd=mod, timeout=a.demo_timeout + 120)
            fails_with = not (("\nok " in "\n" + o) and "FAIL" not in o and "panic" not in o)
            demo_info["with_change"] = {"cmd": run, "fails": fails_with, "tail": o[-600:]}
            # without the change
            sh(["git", "-C", wt, "apply", "-R", patch])
            rc, o = sh(run, cwd=mod, timeout=a.demo_timeout + 120)
            passes_without = ("\nok " in "\n" + o) and "FAIL" not in o
            demo_info["without_change"] = {"cmd": run, "passes": passes_without, "tail": o[-400:]}
            sh(["git", "-C", wt, "apply", patch])
            for d in demos:
                os.remove(os.path.join(dest, os.path.basename(d)))
        else:
            demo_info["note"] = "demonstration not re-run by seedtest (agent's own observation: fails_with=%s passes_without=%s)" % (
                meta_in.get("demo_fails_with_change"), meta_in.get("demo_passes_without_change"))
        result["demo"] = demo_info
        # 4. the checks
        env = dict(os.environ, VERIF_REPO=wt, VERIF_WORK=wk, VERIF_EVIDENCE=os.path.join(wk, "ev"),
                   VERIF_REPLAYS=os.path.join(wk, "rp"), VERIF_SEED=a.seed)
        result["checks"] = []
        for chk in (a.checks or a.prop).split(","):
            t0 = time.time()
            rc, o = sh([sys.executable, os.path.join(VERIF, "tools/check.py"), chk, "--tier", a.tier], cwd=VERIF, env=env, timeout=7200)
            viol = [l for l in o.splitlines() if l.startswith("VIOLATION")]
            detail = [l.strip() for l in o.splitlines() if l.strip().startswith("key=")][:4]
            result["checks"].append({"check": chk, "tier": a.tier, "exit": rc, "violations": len(viol), "caught": rc == 1 and len(viol) > 0,
                                     "wall_s": round(time.time() - t0), "first_keys": [d[:300] for d in detail],
                                     "tail": "" if rc in (0, 1) else o[-800:]})
        result["caught_by"] = [c["check"] for c in result["checks"] if c["caught"]]
        result["status"] = "caught" if result["caught_by"] else "missed"
        return finish(result, out, change)
    finally:
        sh(["git", "-C", "/repo", "worktree", "remove", "--force", wt])
        shutil.rmtree(wt, ignore_errors=True)
        shutil.rmtree(wk, ignore_errors=True)
        sh(["git", "-C", "/repo", "worktree", "prune"])


def finish(result, out, change):
    for f in glob.glob(os.path.join(change, "*")):
        if os.path.isfile(f) and os.path.getsize(f) < 400000:
            shutil.copy(f, out)
    with open(os.path.join(out, "meta.json"), "w") as fh:
        json.dump(result, fh, indent=1)
    print(json.dumps({k: result.get(k) for k in ("name", "status", "existing_tests_pass", "caught_by")}))
    for c in result.get("checks", []):
        print("  check %s exit=%s violations=%s wall=%ss %s" % (c["check"], c["exit"], c["violations"], c["wall_s"], c["first_keys"][:1]))
    d = result.get("demo", {})
    if "with_change" in d:
        print("  demo: fails with change=%s, passes without=%s" % (d["with_change"]["fails"], d["without_change"]["passes"]))
    return 0


if __name__ == "__main__":
    sys.exit(main())
