"""C24 -- collection functions compute what their documentation says.

Spec: Collections.tla (list definitions as a state machine; one action per library function).
Binding A: every transition TLC generates from an input collection is executed on the real function
(api.Evaluate of the call expression) for several concrete kinds of key/value and several ways of
presenting the input collection; paths of the exported graph are executed as pipelines.
"""
import random
from vlib import canon

META = {
    "engine": "coll",
    "level": "model_checking",
    "text": "Collections.tla defines collection/take/top/filter/map/map-items/flatten/sum-by-key/count-values/"
            "count-keys/join-missing and collection-feature key lookup on lists of pairs; TLC checks the definitions "
            "against properties that restate the documentation (prefix, selection, totals preserved, merge) on every "
            "transition and exports every transition from every input of length <= 3 (820 inputs with duplicate keys, "
            "ties, negative values; counts -1,0,1,2,5) and every second step; EVERY first-step transition is executed on "
            "the real functions through api.Evaluate (items and Count()-vs-items), over int/float/string/feature-ID "
            "keys and values and three input representations, plus a seeded sample of the two-step pipelines (quick: "
            "15 000 paths from inputs of <= 2 items; thorough: 150 000 paths from inputs of <= 3 items); every "
            "FindValue/FindValues transition is executed on ingest.CollectionFeature.",
    "note": "Small scope (inputs <= 3 items from 3 keys x 3 values, lookups <= 4 items); homogeneous key/value kinds; "
            "the unary functions given to map/filter/map-items are 4+4+3 fixed lambdas/partials. Unspecified behaviour "
            "is not asserted: order of sum-by-key/count-*/top results, choice among ties in top, join-missing on "
            "unsorted input. Trusted: TLC, the rank->value concretisation in this file, the Go adapter.",
    "technique": "TLA+ spec (Collections) + TLC exhaustive; exported transition graph executed on the b6 collection "
                 "functions via api.Evaluate and on ingest.CollectionFeature",
}

KINDS = ["int", "float", "str", "id", "bigint"]
CMP = {"int", "float", "str", "id", "bigint"}          # kinds b6.Less / b6.Greater order
BIG = 1 << 53        # bigint: integers around 2^53, where neighbouring integers are not distinct as float64
SRC = ["call", "lit", "feat"]
THR = 0


def conc(rank, kind):
    """Order-preserving, injective concretisation of a rank in a kind (identity for ints)."""
    if kind == "int":
        return {"t": "int", "v": rank}
    if kind == "bigint":
        return {"t": "int", "v": BIG + rank}
    if kind == "float":
        return {"t": "float", "v": rank + 0.5}
    if kind == "str":
        return {"t": "str", "v": "s%02d" % (rank + 50)}
    if kind == "id":
        return {"t": "id", "v": ["point", "verif/k", rank + 50]}
    if kind == "bool":
        return {"t": "bool", "v": rank == 1}
    raise ValueError(kind)


def citems(c, kinds):
    return [[conc(k, kinds[0]), conc(v, kinds[1])] for k, v in c]


def sym(s):
    return {"sym": s}


def call(f, *args):
    return {"call": [sym(f) if isinstance(f, str) else f] + list(args)}


def lit(tv):
    return {"lit": tv}


def lam(names, body):
    return {"lambda": [names, body]}


INT1 = lit({"t": "int", "v": 1})
INT0 = lit({"t": "int", "v": 0})


class Builder:
    """Builds the expression of one case; collects the collection features it needs."""

    def __init__(self):
        self.feats = []

    def source(self, c, kinds, src):
        items = citems(c, kinds)
        if src == "call":
            return call("collection", *[call("pair", lit(k), lit(v)) for k, v in items])
        if src == "lit":
            return {"coll": items}
        n = len(self.feats) + 1
        self.feats.append({"n": n, "items": items})
        return call("find-collection", lit({"t": "id", "v": ["collection", "verif/c", n]}))


def kinds_after(op, args, kinds):
    """Kinds of (key, value) after the call, or None when the call is outside the documented domain
    for these kinds (then the case is not generated)."""
    kk, vk = kinds
    if op in ("collection", "take", "flatten"):
        return kinds
    if op == "filter":
        if args["f"] in ("gt", "le") and vk not in CMP:
            return None
        return kinds
    if op == "map":
        f = args["f"]
        if f == "id":
            return kinds
        if f == "const":
            return (kk, "int")
        if f == "inc":
            return kinds if vk == "int" else None
        if f == "gt":
            return (kk, "bool") if vk in CMP else None
    if op == "map-items":
        g = args["f"]
        if g == "swap":
            return (vk, kk)
        if g == "keygt":
            return (kk, "bool") if vk in CMP else None
        if g == "dup":
            return (kk, kk)
    if op == "sum-by-key":
        return kinds if vk == "int" else None
    if op == "count-values":
        return (vk, "int")
    if op == "count-keys":
        return (kk, "int")
    if op == "top":
        return kinds if vk in ("int", "float", "bigint") else None
    if op == "join-missing":
        return kinds if kk in CMP else None
    raise ValueError(op)


def label(op, args):
    if op in ("take", "top"):
        return "%s(%d)" % (op, args["n"])
    if op in ("filter", "map", "map-items"):
        return "%s(%s)" % (op, args["f"])
    if op == "flatten":
        return "flatten(%d)" % len(args["parts"])
    if op == "join-missing":
        return "join-missing(%s)" % args["role"]
    return op


def fn_expr(op, args, kinds):
    """The b6 function value for the named function of the specification."""
    kk, vk = kinds
    f = args["f"]
    if op == "filter":
        if f == "gt":
            return call("gt", lit(conc(THR, vk)))                      # partial: (gt thr) v = gt v thr
        if f == "le":
            return lam(["v"], call("gt", lit(conc(THR + 1, vk)), sym("v")))
        if f == "all":
            return lam(["v"], call("gt", INT1, INT0))
        if f == "none":
            return lam(["v"], call("gt", INT0, INT1))
    if op == "map":
        if f == "id":
            return lam(["v"], sym("v"))
        if f == "const":
            return lam(["v"], INT1)
        if f == "inc":
            return lam(["v"], call("add-ints", sym("v"), INT1))
        if f == "gt":
            return call("gt", lit(conc(THR, vk)))
    if op == "map-items":
        if f == "swap":
            return lam(["p"], call("pair", call("second", sym("p")), call("first", sym("p"))))
        if f == "keygt":
            return lam(["p"], call("pair", call("first", sym("p")), call("gt", call("second", sym("p")), lit(conc(THR, vk)))))
        if f == "dup":
            return lam(["p"], call("pair", call("first", sym("p")), call("first", sym("p"))))
    raise ValueError((op, f))


def stage_expr(b, e, x, kinds, src, rng):
    """Expression of applying edge e's function to the expression x (None: build from the state)."""
    op, args = e["ev"]["op"], e["ev"]["args"]
    if op == "collection":
        return b.source(args["pairs"], kinds, "call")
    if op == "flatten":
        parts = []
        for i, p in enumerate(args["parts"]):
            parts.append(call("pair", lit({"t": "int", "v": i}), b.source(p, kinds, SRC[(SRC.index(src) + i) % 3])))
        return call("flatten", call("collection", *parts))
    if x is None:
        x = b.source(e["from"]["c"], kinds, src)
    if op in ("take", "top"):
        return call(op, x, lit({"t": "int", "v": args["n"]}))
    if op in ("filter", "map", "map-items"):
        return call(op, x, fn_expr(op, args, kinds))
    if op in ("sum-by-key", "count-values", "count-keys"):
        return call(op, x)
    if op == "join-missing":
        other = b.source(args["other"], kinds, rng.choice(SRC))
        return call("join-missing", x, other) if args["role"] == "base" else call("join-missing", other, x)
    raise ValueError(op)


def make_case(path, kinds, src, rng):
    """A pipeline case from a path of edges (the first from an input state); None if some call is
    outside the documented domain for these kinds, or a step follows an ambiguous top."""
    b = Builder()
    stages = []
    x = None
    k = kinds
    for i, e in enumerate(path):
        op, args = e["ev"]["op"], e["ev"]["args"]
        if i > 0 and (op in ("collection", "flatten") or path[i - 1]["ev"]["amb"]):
            return None
        k2 = kinds_after(op, args, k)
        if k2 is None:
            return None
        x = stage_expr(b, e, x, k, src, rng)
        st = {"label": label(op, args), "expr": x, "items": citems(e["to"]["c"], k2), "inlen": len(e["from"]["c"])}
        if op == "top":
            st["mode"] = "top"
            st["top"] = {"n": args["n"], "input": citems(e["from"]["c"], k),
                         "values": [conc(v, k[1]) for v in args["values"]]}
        else:
            st["mode"] = e["ev"]["mode"]
        stages.append(st)
        k = k2
    desc = "%s of %s kinds=%s/%s src=%s" % (" | ".join(s["label"] for s in stages), canon(path[0]["from"]["c"]),
                                            kinds[0], kinds[1], src)
    return {"stages": stages, "feats": b.feats, "desc": desc}


def find_cases(edges, rng, per_feature_kinds):
    """Lookup cases: one per (feature, build, key kind) with every probe of the model."""
    by = {}
    for e in edges:
        by.setdefault(canon(e["from"]["c"]), []).append(e)
    cases = []
    for es in by.values():
        c = es[0]["from"]["c"]
        issorted = es[0]["ev"]["args"]["sorted"]
        builds = ["plain", "sort", "replace-sorted-basic", "replace-sorted-overlay"] + (["sorted-as-given"] if issorted else [])
        for build in builds:
            for kk in rng.sample(KINDS, per_feature_kinds):
                vk = rng.choice(KINDS)
                probes = []
                for e in es:
                    a = e["ev"]["args"]
                    probes.append({"key": conc(a["key"], kk), "found": a["found"], "first": conc(a["first"], vk),
                                   "all": [conc(v, vk) for v in a["all"]]})
                cases.append({"items": citems(c, (kk, vk)), "build": build, "probes": probes,
                              "desc": "%s feature %s kinds=%s/%s" % (build, canon(c), kk, vk)})
    return cases


def run(ctx):
    rng = random.Random(ctx.seed)
    if ctx.quick:
        # quick: first steps from every input of <= 3 items (depth 1), pipelines from every input of <= 2 items
        edges = ctx.tlc("Collections", "CollectionsQuick1.cfg").lines.get("EDGE", [])
        pedges = ctx.tlc("Collections", "CollectionsQuick2.cfg").lines.get("EDGE", [])
    else:
        edges = ctx.tlc("Collections", "Collections.cfg").lines.get("EDGE", [])
        pedges = edges
    if len(edges) < 30000 or len(pedges) < 10000:
        raise Exception("graph export too small: %d, %d" % (len(edges), len(pedges)))
    out = {}
    for e in pedges:
        out.setdefault(canon(e["from"]), []).append(e)
    first = [e for e in edges if e["from"]["d"] == 0]
    pfirst = [e for e in pedges if e["from"]["d"] == 0]
    binary = ctx.go_build("vh-coll")

    cases = []
    ops_seen = {}
    # 1. every first-step transition, over kinds and input representations
    combos = [(a, b) for a in KINDS for b in KINDS]
    per_edge = ctx.pick(1, 4)
    for i, e in enumerate(first):
        ks = rng.sample(combos, len(combos))
        made = 0
        for kinds in ks:
            src = SRC[(i + made) % 3] if ctx.quick else rng.choice(SRC)
            c = make_case([e], kinds, src, rng)
            if c is None:
                continue
            c["id"] = len(cases)
            cases.append(c)
            ctx.distinct_cases.add(canon([e["from"]["c"], e["ev"]["op"], e["ev"]["args"]]))
            ops_seen[e["ev"]["op"]] = ops_seen.get(e["ev"]["op"], 0) + 1
            made += 1
            if made >= per_edge:
                break
    nsingle = len(cases)
    # 2. pipelines: paths of two transitions
    npipes = ctx.pick(15000, 150000)
    tries = 0
    while len(cases) - nsingle < npipes and tries < npipes * 6:
        tries += 1
        e1 = rng.choice(pfirst)
        succ = out.get(canon(e1["to"]), [])
        if not succ:
            continue
        e2 = rng.choice(succ)
        c = make_case([e1, e2], rng.choice(combos), rng.choice(SRC), rng)
        if c is None:
            continue
        c["id"] = len(cases)
        cases.append(c)
        ctx.distinct_cases.add(canon([e1["from"]["c"], e1["ev"]["op"], e1["ev"]["args"], e2["ev"]["op"], e2["ev"]["args"]]))
    ctx.sample({"desc": cases[7]["desc"], "stages": [{"label": s["label"], "mode": s["mode"], "items": s["items"]} for s in cases[7]["stages"]]})
    ctx.sample({"desc": cases[nsingle + 3]["desc"], "stages": [{"label": s["label"], "mode": s["mode"], "items": s["items"]} for s in cases[nsingle + 3]["stages"]]})
    vs = ctx.run_cases(binary, "coll", cases, timeout_ms=20000)
    ctx.absorb(vs, case_of=lambda i: cases[i])
    ctx.traces_validated = len(cases) - nsingle

    # 3. collection features: FindValue / FindValues against a linear scan
    rf = ctx.tlc("Collections", "CollectionsFind.cfg")
    fedges = rf.lines.get("EDGE", [])
    if len(fedges) < 5000:
        raise Exception("lookup export too small: %d" % len(fedges))
    fcases = find_cases(fedges, rng, ctx.pick(1, 4))
    for i, c in enumerate(fcases):
        c["id"] = i
    for c in fcases:
        ctx.distinct_cases.add(canon(["find", c["build"], c["items"]]))
    ctx.sample({"desc": fcases[11]["desc"], "probes": fcases[11]["probes"][:2]})
    fv = ctx.run_cases(binary, "find", fcases, timeout_ms=20000, name="find")
    ctx.absorb(fv, case_of=lambda i: fcases[i])

    ctx.extra_cov["spec_edges"] = len(edges) + len(fedges) + (len(pedges) if pedges is not edges else 0)
    ctx.extra_cov["first_step_edges_executed_on_impl"] = len(first)
    ctx.extra_cov["pipelines_executed"] = len(cases) - nsingle
    ctx.extra_cov["lookup_cases"] = len(fcases)
    ctx.extra_cov["cases_per_function"] = ops_seen
    return ctx.finish(
        "model_checking",
        rule="TLC enumerates every collection of <= 3 items over 3 keys x 3 values (820 inputs) and every call of the 11 "
             "functions on it (counts -1,0,1,2,5; 4 predicates, 4 value functions, 3 item functions; every 3-way split for "
             "flatten; every key-sorted operand of <= 2 items for join-missing, in both roles), and every second call on "
             "each result. Every first-step transition is executed on the real function via api.Evaluate for several "
             "(key kind, value kind) pairs out of int/float/string/feature-ID and input representations (collection call, "
             "literal collection, collection feature); items are compared as a sequence, or as a multiset where the "
             "documentation leaves the order open; Count(), when it reports ok, must equal the number of items iterated, "
             "before and after an iteration; a second iteration must give the same items. Two-step paths are executed as "
             "pipelines (first failing stage is the culprit). FindValue/FindValues: every feature of <= 4 items over 3 keys "
             "x 2 values x 5 probe keys, unsorted, Sort()ed and flagged-sorted, against the linear scan. "
             "distinct = distinct (input, call[, call]) and (feature, key) combinations.",
        assumptions=["keys and values of one collection are of one kind (int, int around 2^53, float, string or feature ID)",
                     "top is only called on int/float values, sum-by-key on int values, join-missing on key-sorted operands (documented preconditions)",
                     "order of the results of sum-by-key, count-values, count-keys and top is not asserted; with ties at the cut, top may keep any of the tied items",
                     "map-items returns the items the function returns (vm_test.go TestMapItems), although its doc string also says 'keys are unmodified'",
                     "values are compared by Go type and value as the VM returns them"],
        exhaustive=True)
