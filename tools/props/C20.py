"""C20 -- printed shell expressions parse back to the same expression.

Spec: ExprTree.tla (token-level model of api/shell.go's printer and of the api/shell.y grammar, plus the allowed
equivalence Norm).  TLC enumerates every expression shape up to a size, every query tree up to a number of leaves and
every abstract string up to a length, and predicts for each whether Parse(Print(t)) is equivalent to t.  EVERY
enumerated object is executed on the real api.UnparseExpression / api.ParseExpression (binding A); the verdict is
taken from the real code only.  The span rule is additionally evaluated by TLC (ExprSpan.tla) on parse trees logged
from the real parser (binding B).
"""
import copy
import json
import random

from vlib import canon
from props import exprlib as X

META = {
    "engine": "expr",
    "level": "exploration",
    "text": "ExprTree.tla models the shell printer and grammar on an abstract token stream; TLC enumerates all expression "
            "shapes (calls, pipelines, lambdas over 5 token patterns) up to a node count, all &/| query trees up to a leaf "
            "count and all abstract strings (quotes, backslashes, control, non-ASCII) up to a length; every one is printed "
            "by the real UnparseExpression, re-tokenised with extra whitespace, parsed by the real ParseExpression and "
            "compared modulo the documented normalisations, and every parsed node's span is checked (nesting, token "
            "alignment, stability under whitespace, re-parse of the covered text).  With the printer/lexer repairs switched "
            "on in the model TLC shows the round trip holds on the whole bounded domain. Exploration level: family R is the "
            "weakest fit of a TLA+ approach (DESIGN.md section 7): the spec contributes the structured exhaustive input "
            "space, the model of precedence/grouping and the span predicate; text equality is decided in Go.",
    "note": "Bounds: shapes <= 5 nodes quick / 6 thorough, <= 2 args in enumerated shapes, queries <= 3/4 leaves, abstract "
            "strings <= 2/3 characters; literal values are classes (tables in tools/props/exprlib.py). Domain: floats with 2 "
            "decimals, lat/lngs with <= 6 decimals, symbols/keys/namespaces the lexer accepts, string tag values, no "
            "collection literals, no literal kinds the printer calls broken-value. Trusted: TLC, the Go adapter's "
            "tokeniser and Norm.",
    "technique": "TLA+ spec (ExprTree: printer + grammar + Norm on tokens) + TLC exhaustive enumeration; every object replayed "
                 "on api.UnparseExpression/ParseExpression; logged parse trees validated against ExprSpan.tla",
}

CFG = """SPECIFICATION Spec
CONSTANTS
  MaxSize = %(size)d
  MaxArgs = %(args)d
  MaxQSize = %(qsize)d
  MaxStr = %(strlen)d
  Kinds = %(kinds)s
  ExprHeads = TRUE
  GroupQueries = %(gq)s
  GroupPipeHead = %(gp)s
  LexerUnescapes = %(lu)s
  EscapeTagValues = %(et)s
%(check)s
CHECK_DEADLOCK FALSE
"""


ALL_KINDS = '{"shape", "query", "string", "tagvalue", "queryvalue"}'


def bounds(ctx):
    return dict(size=ctx.pick(5, 6), args=2, qsize=ctx.pick(3, 4), strlen=ctx.pick(2, 3))


def code_variant(prop="C20"):
    """The printer/lexer variant of ExprTree.tla that models the code under test: a repair is taken to be absent
    exactly while its findings are still listed as `known` in /verif/known/C20.jsonl."""
    known = X.known_keys(prop)

    def absent(*prefixes):
        return any(k.startswith(p) for k in known for p in prefixes)
    tf = lambda b: "TRUE" if b else "FALSE"
    gp = '"none"' if absent("pipeline-head:pipelined-call/") else '"direct"' if absent("pipeline-head:wrapped-pipelined-call/") else '"any"'
    return dict(gq=tf(not absent("query-precedence:")), gp=gp,
                lu=tf(not absent("string-escape:")),
                et=tf(not absent("tag-value:unquoted", "tag-value:empty", "query-tag-value:unquoted", "query-tag-value:empty")))


ALL_FIXED = dict(gq="TRUE", gp='"any"', lu="TRUE", et="TRUE")


def enumerate_with_tlc(ctx):
    b = bounds(ctx)
    variant = code_variant()
    ctx.extra_cov["model_variant_of_code_under_test"] = variant
    # TLC computes initial states on one thread: the enumerations run as separate TLC processes side by side
    jobs = []
    for kinds in ('{"shape"}', '{"query", "string", "tagvalue", "queryvalue"}'):
        cfg = CFG % dict(b, check="CONSTRAINT Emit", kinds=kinds, **variant)
        jobs.append(("ExprTree", dict(cfg_text=cfg, timeout=ctx.pick(300, 1500), heap="6g")))
    # design level: with the proposed repairs the round trip holds for everything the grammar can express
    fb = dict(b)
    fb["size"] = ctx.pick(4, 6)     # quick: one size below the enumeration (it emits nothing)
    fixed = CFG % dict(fb, check="INVARIANT RoundTrips", kinds=ALL_KINDS, **ALL_FIXED)
    jobs.append(("ExprTree", dict(cfg_text=fixed, timeout=ctx.pick(300, 1500), heap="4g", count=False)))
    rs = X.tlc_parallel(ctx, jobs)
    lines = rs[0].lines.get("CASE", []) + rs[1].lines.get("CASE", [])
    if len(lines) < 1000:
        raise Exception("ExprTree export too small: %d" % len(lines))
    return lines, rs[2]


def build_cases(ctx, lines):
    rng = random.Random(ctx.seed)
    cases = []

    def add(t, ws, pred=None, back=None, origin=None):
        c = {"id": len(cases), "t": t, "ws": ws}
        if pred is not None:
            c["pred"] = pred
        if back is not None and back.get("k") != "error":
            c["back"] = back
        c["origin"] = origin
        cases.append(c)

    by = {}
    for l in lines:
        by.setdefault(l["what"], []).append(l)
    clean_queries = [l["t"]["q"] for l in by.get("query", []) if l["pred"] == "ok"]
    # 1. every enumerated object as TLC printed it (default concretisation), with the model's prediction
    for what in ("shape", "query", "string", "tagvalue", "queryvalue"):
        for l in by.get(what, []):
            add(l["t"], [1], l["pred"], l["back"], "tlc:" + what)
    n_raw = len(cases)
    # 2. every shape again with literal classes drawn from the tables (seeded); extra whitespace of every kind
    for l in by.get("shape", []):
        if not l["headok"]:
            continue
        for k in range(ctx.pick(1, 3)):
            add(X.concretise_shell(l["t"], rng, clean_queries), [2, 3, 4 + rng.randrange(1 << 20)], None, None, "shape+classes")
    # 3. every query tree with key/value classes, alone and as an argument
    for l in by.get("query", []):
        q = X.map_query(l["t"]["q"], lambda x: X.clean_query_leaf(x, rng))
        add(X.Q(q), [2, 4 + rng.randrange(1 << 20)], None, None, "query+classes")
        if rng.random() < ctx.pick(0.25, 1.0):
            add(X.CALL(X.S("find"), [X.Q(q)]), [3], None, None, "query+classes")
    # shapes first found by TLC at the thorough bounds, kept at every tier
    inner = X.CALL(X.S("f"), [X.S("x")], pipe=True)
    for head in (X.CALL(inner, []), X.CALL(X.CALL(inner, []), []), X.CALL(X.LAM([], X.S("x")), [])):
        add(X.CALL(head, [X.S("a")], pipe=True), [1, 2], None, None, "regression-shape")
        add(X.LAM(["y"], X.CALL(head, [X.INT(1)], pipe=True)), [3], None, None, "regression-shape")
    # 4. every literal class in every context
    leaves = []
    leaves += [X.S(s) for s in X.SYMBOLS]
    leaves += [X.INT(c) for c in X.INTS] + [X.FLT(c) for c in X.FLOATS_SHELL]
    leaves += [X.STR(s) for s in X.STRINGS_CLEAN + X.STRINGS_ESCAPED]
    leaves += copy.deepcopy(X.IDS_SHELL)
    leaves += [X.PT_DEG(a, b) for a, b in X.POINTS_DEG]
    leaves += [X.TAG(k, v) for k in X.TAG_KEYS for v in ("yes", "x y")]
    leaves += [X.TAG("#a", v) for v in X.TAG_VALUES_CLEAN + X.TAG_VALUES_OTHER]
    leaves += [X.Q(X.KEYED(k)) for k in X.TAG_KEYS]
    leaves += [X.Q(X.TAGGED("#a", v)) for v in X.TAG_VALUES_CLEAN + X.TAG_VALUES_OTHER]
    leaves += [X.Q({"k": "all"}), X.Q({"k": "typed", "t": "area", "q": X.KEYED("#a")})]   # the printer refuses these (ok=false): outside the subset
    # abstract strings of the model in context, too
    for l in by.get("string", []):
        leaves.append(l["t"])
    for leaf in leaves:
        for t in X.contexts(leaf):
            add(copy.deepcopy(t), [1, 2, 3], None, None, "class-in-context")
    return cases, n_raw


SPAN_CFG = """SPECIFICATION Spec
INVARIANT AllSpansOK
POSTCONDITION Finished
CHECK_DEADLOCK FALSE
"""


def validate_spans_with_tlc(ctx, binary, cases, verdicts):
    """Binding B: parse trees logged from the real parser, judged by the span predicate of ExprSpan.tla."""
    rng = random.Random(ctx.seed + 17)
    ok_cases = [cases[v["id"]] for v in verdicts if v.get("ok") and (v.get("obs") or {}).get("outcome") == "ok"]
    rng.shuffle(ok_cases)
    sample = ok_cases[:ctx.pick(1500, 12000)]
    log = [dict(copy.deepcopy(c), id=i, log=True, ws=c["ws"][:1], ignore=[]) for i, c in enumerate(sample)]
    for c in log:
        c.pop("origin", None)
    vs = ctx.run_cases(binary, "spans", log, name="spans")
    trees = []
    for v in vs:
        for t in (v.get("obs") or {}).get("trees", []):
            trees.append(t)
    if not trees:
        raise Exception("no span trees logged")
    text = "".join(json.dumps(t, separators=(",", ":")) + "\n" for t in trees)
    r = ctx.tlc("ExprSpan", cfg_text=SPAN_CFG, files={"trace.ndjson": text}, expect_violation=True, workers=1,
                timeout=ctx.pick(200, 900))
    ctx.traces_validated += len(trees)
    ctx.extra_cov["span_trees_validated_by_tlc"] = len(trees)
    if not ctx.quick and not r.violated:
        # binding self-test: one logged span moved by one byte must be rejected by the predicate
        bad = copy.deepcopy(trees[:50])
        bad[len(bad) // 2]["wtree"]["e"] += 1
        text = "".join(json.dumps(t, separators=(",", ":")) + "\n" for t in bad)
        r2 = ctx.tlc("ExprSpan", cfg_text=SPAN_CFG, files={"trace.ndjson": text}, expect_violation=True, workers=1, count=False)
        if not r2.violated:
            raise X.vlib.Inconclusive("ExprSpan self-test: a corrupted span was accepted")
        ctx.extra_cov["span_predicate_selftest"] = "corrupted span rejected (%s)" % r2.violated
    return r, trees


def run(ctx):
    lines, r_fixed = enumerate_with_tlc(ctx)
    ctx.extra_cov["model_fixed_variant_states"] = r_fixed.distinct
    pred = {}
    for l in lines:
        pred[(l["what"], l["pred"])] = pred.get((l["what"], l["pred"]), 0) + 1
    ctx.extra_cov["model_predictions"] = {"%s/%s" % k: v for k, v in sorted(pred.items())}
    binary = ctx.go_build("vh-expr")
    cases, n_raw = build_cases(ctx, lines)
    for c in cases:
        ctx.distinct_cases.add(canon(c["t"]))
    send = [{k: v for k, v in c.items() if k != "origin"} for c in cases]
    ctx.sample({"tree": cases[7]["t"], "pred": cases[7].get("pred")})
    ctx.sample({"tree": cases[n_raw + 11]["t"], "ws": cases[n_raw + 11]["ws"]})
    ctx.sample({"tree": cases[-3]["t"]})
    vs = X.run_stepping_over_known(ctx, binary, "shell", send, "C20")
    outcomes = {}
    for v in vs:
        o = (v.get("obs") or {}).get("outcome", "?")
        outcomes[o] = outcomes.get(o, 0) + 1
    ctx.extra_cov["real_outcomes"] = outcomes
    ctx.extra_cov["cases_from_tlc_enumeration"] = n_raw
    # binding self-test: a corrupted expectation must be rejected by the adapter
    passing = [send[v["id"]] for v in vs if v.get("ok") and (v.get("obs") or {}).get("outcome") == "ok"]
    X.binding_selftest(ctx, binary, "shell", passing[::max(1, len(passing) // 40)], lambda t: X.CALL(X.S("zz"), [t]))
    # binding B: the span rule as a TLA+ predicate over logged parse trees
    r, trees = validate_spans_with_tlc(ctx, binary, send, vs)
    if r.violated:
        # the tree was produced by the real parser and the predicate is the property: a rejection is a failure
        import re
        idx = [int(m) for m in re.findall(r"^i = (\d+)", r.out, re.M)]
        bad = trees[idx[-1] - 1] if idx and 0 < idx[-1] <= len(trees) else None
        kind = bad["tree"]["kind"] if bad else "?"
        ctx.fail("span-predicate:%s:%s" % (kind, X.vlib.short_hash(bad)), "ExprSpan.tla (%s) rejects the parse tree logged from "
                 "the real parser: %s" % (r.violated, json.dumps(bad)[:1200]), {"record": bad})
    return ctx.finish(
        "exploration",
        rule="TLC enumerates every expression shape of ExprTree.tla up to MaxSize nodes (calls with <= 2 arguments, pipelined "
             "or not, symbol/lambda/call heads, lambdas with 0-2 parameters, 5 leaf token patterns), every &/| query tree up "
             "to MaxQSize leaves and every abstract string/tag value up to MaxStr characters; each is executed as printed by "
             "TLC, again with literal classes from the tables (seeded), and every literal class is placed in 8 contexts. "
             "Per case: UnparseExpression, ParseExpression, equivalence modulo (zero-arg call == function; a | f x == f a x; "
             "same-operator query nesting flattened); then the same tokens with extra whitespace (spaces, tabs/newlines, "
             "multi-byte unicode spaces, seeded mixes) must parse to the same thing; every parsed node: begin < end, on "
             "token boundaries, inside its parent, same tokens under every whitespace variant, and text[begin:end] "
             "(re-delimited) parses to an equivalent node. distinct = distinct concrete trees.",
        assumptions=[
            "equivalence is the printer's documented normalisation: a zero-argument call is its function; `a | f x` is `f a x`; "
            "nested &/| of the same operator are flattened (api.Simplify does the same)",
            "domain: floats with two decimals, lat/lng with <= 6 decimals, symbols / tag keys / lambda parameters / namespaces "
            "that the lexer accepts, tag values are strings, pipelined calls have a first argument, &/| have >= 2 operands",
            "collection literals and literal kinds the printer writes as (broken-value ...) are outside the printable subset",
            "spans exclude the enclosing ( ) { } [ ] as the parser defines them (TestParseExpressionFillsBeginAndEndLocations); "
            "'covers the text it came from' is checked by re-parsing text[begin:end] after re-adding those delimiters",
            "a model prediction is never a verdict: only the real round trip decides; predictions are reported as agreement counts",
        ],
        exhaustive=True)
