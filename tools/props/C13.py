"""C13 -- a rejected change leaves the world as it was  (MutableWorld family; see tools/mworld.py)"""
import mworld

META = {
    "engine": "mworld",
    "level": "model_checking",
    "text": 'MutableWorld.tla decides for every candidate AddFeature in every reachable state of scenario 3 whether it must be rejected (it, or a transitive referrer, would be invalid); TLC checks RejectedUnchanged on the model; every rejected transition is executed on BasicMutableWorld and three MutableOverlayWorld constructions and the complete observation (lookup, search, enumeration, reference queries) after the attempt must equal the observation before it.',
    "note": 'Small scope (<= 13 features on a convex polygon, 3 tag keys, 2 values); self-crossing loops are never generated (validity unspecified in the vendored s2). Trusted: TLC, harness/obs, vh-world. The comparison for this property is real-before vs real-after, so no ideal semantics is needed.',
    "technique": "TLA+ spec (MutableWorld) model-checked by TLC; exported state graph replayed on the real worlds",
}


def run(ctx):
    return mworld.run_family(
        ctx, "C13", scenarios=[3, 7, 10], impls=['basicmutable', 'overlay-basic', 'overlay-mutable', 'overlay-empty', 'overlay-compact'],
        sections=['unchanged'],
        select=lambda e: e['ev']['op'] in ('add', 'merged') and not e['ev']['ok'],
        meta_rule='every rejected AddFeature / failing MergedChange transition of the TLC graph executed via its shortest prefix on 4 world constructions + random walks',
        assumptions=['rejection is judged by the error returned by the real call'],
        focused=(120, 800))
