"""C04 -- spatial search never misses or invents a feature its query accepts.

(a) design lemma spec/CellIndex.tla (+ CellTokens.tla): TLC proves related cells => token sets intersect for the
    design, and for the code as built for every feature cell above level 0; every enumerated covering is executed
    on the real search.TokensForCovering / search.RewriteSpatialQuery (adapter "tokens"); the as-built gap
    (level-0 cell) is a TLC counterexample that is replayed on the real functions.
(b) end to end: seeded worlds x spatial queries on the real worlds (adapter "e2e") and chains of real cells at
    levels 0..30 (adapter "chain"); every recorded event is judged by TLC with spec/SpatialTrace.tla
    (result = <<id in indexed : query.Matches(id)>>; related coverings => real token sets intersect).
"""
import json
import re
from vlib import canon, Inconclusive

META = {
    "engine": "spatial",
    "level": "model_checking",
    "text": "The index design (cell covering -> tokens, query covering -> token lookups) is a TLA+ lemma checked by "
            "TLC for all pairs of small coverings (CellIndex.tla); the real token functions are executed on every "
            "enumerated covering and the lemma is re-evaluated on the real token sets; whole-system behaviour is "
            "explored with seeded worlds x queries on four world implementations, each recorded (world, query) pair "
            "being validated by TLC against result = <<id in indexed : Matches(id)>> (SpatialTrace.tla). The lemma "
            "is model-checked; the end-to-end part is exploration.",
    "note": "Model domain: 1-2 faces, levels 0..3, coverings of <= 2 cells; real levels 0..30 via recorded chains. "
            "The step from 'regions intersect' to 'coverings have related cells' rests on s2.RegionCoverer "
            "(trusted base) and is exercised only by the end-to-end runs. Oracle for membership is the query's own "
            "Matches, as the property states. Relations/collections are not generated (no geometry).",
    "technique": "TLA+ lemma (CellIndex/CellTokens) + TLC exhaustive; CASE lines executed on the real token "
                 "functions; trace validation (SpatialTrace) of seeded world x query runs on the real worlds",
}

def cfg(init, faces, depth, maxcov, invariants):
    return ("INIT %s\nNEXT Next\nCONSTANTS\n  Faces = {%s}\n  Depth = %d\n  MaxCov = %d\n"
            "INVARIANTS %s\nCHECK_DEADLOCK FALSE\n" % (init, ", ".join(map(str, faces)), depth, maxcov,
                                                       " ".join(invariants)))


def covkey(cov):
    return canon(sorted(cov, key=canon))


_CELL_RE = re.compile(r"\[f \|-> (\d+), p \|-> <<([0-9, ]*)>>\]")


def parse_cov(text):
    return [{"f": int(m.group(1)), "p": [int(x) for x in m.group(2).split(",") if x.strip()]}
            for m in _CELL_RE.finditer(text)]


def lemma(ctx, binary):
    """Part (a).  Returns number of coverings executed."""
    domains = ctx.pick([([0], 2, 2), ([0, 1], 3, 1)],
                       [([0], 2, 2), ([0, 1], 3, 1), ([0, 5], 2, 2)])
    cases = []
    for faces, depth, maxcov in domains:
        # the design: Sound and Precise for all pairs of coverings; the code as built: SoundAboveFace
        d = ctx.tlc("CellIndex", cfg_text=cfg("InitEmit", faces, depth, maxcov, ["Sound", "Precise", "SoundAboveFace"]))
        dl = d.lines.get("CASE", [])
        if not dl:
            raise Inconclusive("CASE export empty")
        for c in dl:
            cases.append({"id": len(cases), "cov": c["cov"], "ftok": c["ftok"], "qtok": c["qtok"],
                          "bftok": c["bftok"], "faces": faces, "depth": depth})
            ctx.distinct_cases.add("cov:" + covkey(c["cov"]))
    # the code as built: SoundAsBuilt must be violated, through a level-0 feature cell (a candidate, replayed below
    # because that covering is one of the cases)
    faces, depth, maxcov = domains[0]
    g = ctx.tlc("CellIndex", cfg_text=cfg("Init", faces, depth, maxcov, ["SoundAsBuilt"]),
                expect_violation=True, count=False, quiet=True)
    if g.violated == "SoundAsBuilt":
        m = re.search(r"/\\ f = \{(.*?)\}\s*\n/\\ q = \{(.*?)\}\s*\n", g.out, re.S)
        if m:
            ctx.extra_cov["tlc_candidate_as_built"] = {"f": parse_cov(m.group(1)), "q": parse_cov(m.group(2))}
    else:
        ctx.note("the as-built transcription no longer violates the lemma in the model")
    ctx.sample({"tokens_case": {k: cases[3][k] for k in ("cov", "ftok", "qtok")}})
    vs = ctx.run_cases(binary, "tokens", cases, timeout_ms=20000, name="tokens")
    ctx.absorb(vs, case_of=lambda i: cases[i])
    differ = [v for v in vs if v.get("ok") and v.get("msg")]
    if differ:
        ctx.note("%d covering(s) whose real tokens differ from the design while every related pair stays sound, e.g. %s"
                 % (len(differ), differ[0]["msg"][:300]))
    # binding self-test (thorough): a corrupted expectation must be noticed by the adapter
    if not ctx.quick:
        bad = dict(cases[5])
        bad["id"] = 0
        bad["mutate"] = "drop-expected-ancestor"
        v = ctx.run_cases(binary, "tokens", [bad], name="tokens-selftest")[0]
        if v.get("ok") and not v.get("msg"):
            raise Inconclusive("binding self-test failed: a corrupted expected token set was not noticed")
        ctx.extra_cov["binding_selftest_tokens"] = "corrupted expectation noticed"
    return len(cases)


def judge_trace(ctx, events, owners, label):
    """Binding B: TLC judges every recorded event (SpatialTrace.tla); its verdicts are cross-checked with the
    adapter's own and turned into failures.  owners[i] = replay info of event i."""
    if not events:
        return
    text = "".join(json.dumps(e, separators=(",", ":")) + "\n" for e in events)
    r = ctx.tlc("SpatialTrace", "SpatialTrace.cfg", files={"trace.ndjson": text}, workers=1)
    if r.depth - 1 != len(events):
        raise Inconclusive("SpatialTrace read %d of %d events" % (r.depth - 1, len(events)))
    bad = {b["line"] for b in r.lines.get("BAD", [])}
    for i, e in enumerate(events):
        tlc_bad = (i + 1) in bad
        if e.get("go_bad") and str(e.get("key", "")).startswith("panic"):
            # a panic inside FindFeatures / Matches is an observation of its own, whatever the logged lists say
            ctx.fail(e["key"], e.get("what", ""), {"owner": owners[i], "event": e})
            continue
        if tlc_bad != bool(e.get("go_bad")):
            raise Inconclusive("%s: TLC and the adapter disagree on event %d (TLC bad=%s, adapter bad=%s): %s" % (
                label, i + 1, tlc_bad, e.get("go_bad"), json.dumps(e)[:600]))
        if tlc_bad:
            ctx.fail(e.get("key") or "unkeyed-event", e.get("what", ""), {"owner": owners[i], "event": e})
    diffs = r.lines.get("DIFF", [])
    nd = [d for d in diffs if not d.get("asbuilt")]
    ctx.extra_cov["tok_events_differing_from_design"] = ctx.extra_cov.get("tok_events_differing_from_design", 0) + len(diffs)
    if nd:
        ctx.note("%d recorded token sets differ from the design AND from the as-built transcription, e.g. %s"
                 % (len(nd), json.dumps(nd[0])[:300]))
    ctx.traces_validated += len(events)
    return r


def end_to_end(ctx, binary):
    """Part (b)."""
    # chains of real cells at real levels
    ccases = [{"id": i, "seed": ctx.seed, "n": ctx.pick(2, 6)} for i in range(ctx.pick(4, 16))]
    vs = ctx.run_cases(binary, "chain", ccases, timeout_ms=60000, name="chain")
    events, owners = [], []
    for v in vs:
        ctx.evaluations += 1
        if not v.get("obs"):
            ctx.fail(v.get("key") or "chain-crash", v.get("msg", ""), {"case": ccases[v["id"]], "verdict": v})
            continue
        for e in (v["obs"].get("events") or []):
            events.append(e)
            owners.append({"adapter": "chain", "case": ccases[v["id"]]})
            ctx.distinct_cases.add("chain:%d/%d" % (len(e["f"][0]["p"]), len(e["q"][0]["p"])))
    ctx.extra_cov["chain_pairs"] = len(events)
    judge_trace(ctx, events, owners, "chain")

    # worlds x queries
    classes = ["tiny", "boundary", "crossface", "large", "huge", "tolerance"]
    worlds = ["basic", "overlay", "mutable", "layered", "compact"]
    # every (class, world) pair; the compact build is the slow one, so the quick tier keeps three of its classes
    pairs = [(c, w) for w in worlds for c in classes]
    if ctx.quick:
        pairs = [p for p in pairs if p[1] != "compact" or p[0] in ("boundary", "crossface", "huge")]
    n = ctx.pick(len(pairs), 240)
    nq = ctx.pick(44, 64)
    cases = []
    for i in range(n):
        c, w = pairs[i % len(pairs)]
        cases.append({"id": i, "seed": ctx.seed, "class": c, "world": w, "nq": nq})
    vs = ctx.run_cases(binary, "e2e", cases, timeout_ms=180000, name="e2e", total_timeout=3000)
    events, owners = [], []
    for v in vs:
        for k, x in (v.get("stats") or {}).items():
            ctx.extra_cov[k] = ctx.extra_cov.get(k, 0) + x
        if not v.get("obs"):
            # crash, timeout or a world that could not be built: no events
            ctx.evaluations += 1
            ctx.fail(v.get("key") or "e2e-crash", v.get("msg", ""), {"case": cases[v["id"]], "verdict": v})
            continue
        for e in (v["obs"].get("events") or []):
            events.append(e)
            owners.append({"adapter": "e2e", "case": cases[v["id"]]})
            if e["ev"] == "find":
                ctx.evaluations += 1
                if any(e["matches"]) and not all(e["matches"]):
                    ctx.distinct_cases.add("find:%s:%s:%s" % (cases[v["id"]]["world"], cases[v["id"]]["class"], e["query"]))
    finds = [e for e in events if e["ev"] == "find"]
    if finds:
        ctx.sample({"find_event": {k: finds[1 % len(finds)][k] for k in ("query", "indexed", "matches", "result")}})
    # TLC reads the trace in chunks (one JVM start each)
    chunk = 6000
    for a in range(0, len(events), chunk):
        judge_trace(ctx, events[a:a + chunk], owners[a:a + chunk], "e2e")
    ctx.extra_cov["world_query_pairs"] = len(finds)

    # binding self-test: a corrupted logged result must be rejected by TLC
    if not ctx.quick or True:
        t = dict(cases[0])
        t["mutate"] = "drop-result"
        v = ctx.run_cases(binary, "e2e", [t], timeout_ms=180000, name="e2e-selftest")[0]
        ev = [e for e in (v.get("obs") or {}).get("events", []) if e["ev"] == "find"][:3]
        text = "".join(json.dumps(e, separators=(",", ":")) + "\n" for e in ev)
        r = ctx.tlc("SpatialTrace", "SpatialTrace.cfg", files={"trace.ndjson": text}, workers=1, count=False, quiet=True)
        if 1 not in {b["line"] for b in r.lines.get("BAD", [])}:
            raise Inconclusive("binding self-test failed: TLC accepted a corrupted FindFeatures result")
        ctx.extra_cov["binding_selftest_trace"] = "corrupted result rejected by TLC"


def replay(ctx, obj):
    """Re-execute the case of a replay file on the current tree (the adapter judges it)."""
    rep = obj.get("replay") or {}
    binary = ctx.go_build("vh-spatial")
    if "owner" in rep:
        adapter, case = rep["owner"]["adapter"], rep["owner"]["case"]
    else:
        adapter, case = "tokens", rep.get("case")
    if not case:
        raise Inconclusive("replay file has no case")
    v = ctx.run_cases(binary, adapter, [dict(case)], timeout_ms=180000, name="replay")[0]
    ctx.evaluations += 1
    keys = {v.get("key")} | {e.get("key") for e in ((v.get("obs") or {}).get("events") or []) if e.get("go_bad")}
    if obj.get("key") in keys:
        ctx.fail(obj["key"], obj.get("what", ""), rep)
    return ctx.finish("model_checking", rule="replay of one recorded case", exhaustive=False)


def run(ctx):
    binary = ctx.go_build("vh-spatial")
    n = lemma(ctx, binary)
    ctx.extra_cov["lemma_coverings_executed_on_impl"] = n
    end_to_end(ctx, binary)
    return ctx.finish(
        "model_checking",
        rule="(a) TLC enumerates every covering of <= 2 cells over levels 0..2 of one face and every single cell over "
             "levels 0..3 of two faces, checks the lemma for all pairs, and each covering is executed on the real "
             "TokensForCovering / RewriteSpatialQuery (token sets compared with the specification; the lemma re-evaluated "
             "on the real token sets). (b) chains of real cells at all level pairs 0..30 and seeded worlds (tiny, "
             "cell-boundary, cross-face, large, face-sized extents, and a point and a path 0.6 mm apart across a cell edge; basic, mutable, mutable-overlay, static-overlay, compact worlds) x queries "
             "(cap, cells, point, polyline, multipolygon, intersecting-feature, also under an intersection with a tag "
             "query); every event validated by TLC (SpatialTrace.tla). distinct = distinct coverings + distinct "
             "(feature level, query level) chain pairs + distinct selective (world, query) pairs (some but not all "
             "indexed features match).",
        assumptions=["'indexed features' = what FindFeatures(All) returns in the same world",
                     "membership oracle = the query's own Matches, as the property states (its geometric correctness is C05)",
                     "worlds contain points, paths and areas only; every generated loop is valid (no self-crossings)",
                     "s2.RegionCoverer returns a covering of the region (trusted base)"],
        exhaustive=False)
