"""C23 -- evaluating a request never crashes the server.

Spec: Requests.tla enumerates request SHAPES (how a call departs from the plain well-formed call: callee
form, argument count, one class of unusual value per argument slot, what is done with the result) and
states the outcome invariant (value or error).  This file instantiates every shape for EVERY symbol
registered in functions.Functions() (signatures are read from the real registry by `vh-coll sigs`),
the adapter handles each request the way grpc/service.go does, in a worker process with a deadline.
Level: exploration -- the specification contributes the enumeration and the one-line invariant only.
"""
import random
import re

META = {
    "engine": "coll",
    "level": "exploration",
    "text": "Systematic exploration, not a proof: Requests.tla enumerates every request shape up to a weight budget "
            "(callee form x argument count x unusual-value class per argument slot x use of the result) and the "
            "invariant Outcome in {value, error}; every shape is instantiated for every one of the registered library "
            "functions against a small scratch world and handled exactly as service.Evaluate does (decode, Simplify, "
            "api.Evaluate, apply change, encode) in a worker process; panic / fatal error / no answer within the "
            "deadline violate the invariant. 'Never panics' has a trivial specification; the model contributes the "
            "enumeration skeleton only (DESIGN.md section 7).",
    "note": "One scratch world (6 points, 3 paths, 1 area, 1 relation, 3 collections, 1 expression); one or two "
            "representative values per (parameter type, class); FileIOAllowed=false so the five file functions only reach "
            "their permission check; shapes of weight <= 2 (quick) / <= 3 (thorough, sampled). Panics are keyed by stage, "
            "first b6 frame, function and the MINIMAL failing shape, so a different panic is a different finding.",
    "technique": "TLA+ spec (Requests) enumerates request shapes with TLC; each instantiated per registered function and "
                 "executed through the service's evaluation path; outcome judged against the spec's allowed set",
}

NS = "verif/w"


def tv(t, v=None):
    return {"t": t} if v is None else {"t": t, "v": v}


def lit(t, v=None):
    return {"lit": tv(t, v)}


def sym(s):
    return {"sym": s}


def call(f, *args):
    return {"call": [sym(f) if isinstance(f, str) else f] + list(args)}


def lam(names, body):
    return {"lambda": [names, body]}


def fid(t, v, ns=NS):
    return lit("id", [t, ns, v])


INT = lambda n: lit("int", n)
FLT = lambda x: lit("float", x)
STR = lambda s: lit("str", s)
NIL = {"nil": True}
POINT = {"point": [51.5355, -0.1245]}
POINT2 = {"point": [51.5365, -0.1235]}
TAG = {"tag": ["#amenity", "cafe"]}
QUERY = {"query": ["keyed", "#amenity"]}
IDENT = lam(["x"], sym("x"))
P1, P2, PMISSING = fid("point", 1), fid("point", 2), fid("point", 999)
PATH1, AREA1, REL1, COLL1, COLL2, EXPR1 = fid("path", 1), fid("area", 1), fid("relation", 1), fid("collection", 1), fid("collection", 2), fid("expression", 1)
INVALID = lit("id", ["invalid", "", 0])
GEOJSON_POINT = '{"type":"Feature","geometry":{"type":"Point","coordinates":[-0.1245,51.5355]},"properties":{}}'
GEOJSON_POLY = ('{"type":"Feature","geometry":{"type":"Polygon","coordinates":[[[-0.125,51.535],[-0.124,51.535],'
                '[-0.124,51.536],[-0.125,51.536],[-0.125,51.535]]]},"properties":{}}')
HUGE_INT = 1 << 40
FEATURE = call("find-feature", P1)
PATHF = call("find-feature", PATH1)
AREAF = call("find-area", AREA1)
CHANGE = call("add-tag", P1, TAG)


def coll(items):
    return {"coll": items}


def elem(t, i=0):
    """A typed value for an element type of a collection parameter (None: not expressible as a literal)."""
    t = t.replace("diagonal.works/b6/ingest.", "ingest.").replace("diagonal.works/b6.", "b6.")
    if t in ("interface {}", "int"):
        return tv("int", i + 1)
    if t == "float64":
        return tv("float", 1.5 + i)
    if t == "string":
        return tv("str", "name" if i == 0 else "level")
    if t in ("b6.FeatureID", "b6.Identifiable"):
        return tv("id", ["point", NS, i + 1])
    if t == "b6.Tag":
        return tv("tag", ["#amenity", "cafe"] if i == 0 else ["name", "x"])
    if t == "b6.Geometry":
        return tv("point", [51.5355 + i * 0.001, -0.1245])
    return None


COLL_RE = re.compile(r"^b6\.Collection\[(.*),([^,]*)\]$")


def pool(t, cls, pos, symname):
    """Expression for a parameter of Go type t in class cls; None if the type has no such class."""
    m = COLL_RE.match(t)
    if m or t == "b6.UntypedCollection":
        kt, vt = (m.group(1), m.group(2)) if m else ("interface {}", "interface {}")
        ks = [elem(kt, 0), elem(kt, 1)]
        vs = [elem(vt, 0), elem(vt, 1)]
        nested_ok = {
            "diagonal.works/b6.Feature": call("find", QUERY),
            "diagonal.works/b6.PhysicalFeature": call("find", QUERY),
            "diagonal.works/b6.AreaFeature": call("find-areas", {"query": ["keyed", "#building"]}),
            "diagonal.works/b6.Area": call("find-areas", {"query": ["keyed", "#building"]}),
            "diagonal.works/b6.RelationFeature": call("find-relations", {"query": ["keyed", "#route"]}),
            "diagonal.works/b6.UntypedCollection": call("collection", call("pair", INT(0), coll([[tv("int", 1), tv("int", 2)]])),
                                                         call("pair", INT(1), coll([]))),
            "diagonal.works/b6/ingest.Change": call("collection", call("pair", INT(0), CHANGE)),
            "diagonal.works/b6.Route": call("accessible-routes", P1, QUERY, FLT(500.0), coll([])),
        }
        if cls == "ok":
            if vs[0] is not None and ks[0] is not None:
                return coll([[ks[0], vs[0]], [ks[1], vs[1]]])
            return nested_ok.get(vt)
        if cls == "empty":
            return coll([])
        if cls in ("neg", "zero", "huge") and vs[0] is not None and ks[0] is not None:
            # a collection whose own arithmetic is at a boundary: take with a negative / zero / huge count (its Count()
            # and its iteration have to agree, and consumers that size buffers from Count() meet these)
            n = {"neg": INT(-1), "zero": INT(0), "huge": INT(HUGE_INT)}[cls]
            return call("take", coll([[ks[0], vs[0]], [ks[1], vs[1]]]), n)
        if cls == "wrong-kind":
            return INT(7)
        if cls == "wrong-elems":
            bad = tv("str", "zz") if vt not in ("string", "interface {}") else tv("pair", [tv("int", 1), tv("int", 2)])
            return coll([[tv("int", 1), bad], [tv("str", "k"), bad]])
        if cls == "nil":
            return NIL
        if cls == "nested":
            if vs[0] is not None and ks[0] is not None:
                return call("filter", coll([[ks[0], vs[0]], [ks[1], vs[1]]]), lam(["v"], call("gt", INT(1), INT(0))))
            return call("take", nested_ok.get(vt, coll([])), INT(1))
        if cls == "nested-err":
            return call("map", coll([[tv("int", 1), tv("int", 2)]]), lam(["v"], call("first", sym("v"))))   # fails when iterated
        if cls == "missing-id":
            return call("find-collection", fid("collection", 999))   # nil collection feature
        return None
    if t == "int":
        return {"ok": INT(2), "zero": INT(0), "neg": INT(-1), "huge": INT(HUGE_INT), "wrong-kind": STR("x"), "nil": NIL,
                "nested": call("add-ints", INT(1), INT(1)), "nested-err": call("to-str", INT(1))}.get(cls)
    if t == "float64":
        return {"ok": FLT(50.0), "zero": FLT(0.0), "neg": FLT(-10.0), "huge": FLT(1e18), "wrong-kind": STR("x"), "nil": NIL,
                "nested": call("divide-int", INT(100), FLT(4.0)), "nested-err": call("to-str", INT(1))}.get(cls)
    if t == "b6.Number":
        return {"ok": INT(3), "zero": INT(0), "neg": FLT(-2.5), "huge": FLT(1e300), "wrong-kind": STR("x"), "nil": NIL,
                "nested": call("add", INT(1), FLT(1.5)), "nested-err": call("to-str", INT(1))}.get(cls)
    if t == "string":
        return {"ok": STR("name"), "empty": STR(""), "wrong-kind": INT(7), "nil": NIL, "huge": STR("x" * 5000),
                "nested": call("to-str", INT(5)), "nested-err": call("add-ints", INT(1), INT(1))}.get(cls)
    if t in ("b6.FeatureID", "b6.Identifiable"):
        return {"ok": P1, "missing-id": PMISSING, "invalid-id": INVALID, "wrong-kind": INT(7), "nil": NIL,
                "nested": FEATURE if t == "b6.Identifiable" else call("id-to-relation-id", STR("ns"), P1),
                "nested-err": call("find-feature", PMISSING), "empty": fid("collection", 3)}.get(cls)
    if t in ("b6.AreaID", "b6.RelationID", "b6.CollectionID"):
        kind = {"b6.AreaID": "area", "b6.RelationID": "relation", "b6.CollectionID": "collection"}[t]
        return {"ok": fid(kind, 1), "missing-id": fid(kind, 999), "invalid-id": P1, "wrong-kind": INT(7), "nil": NIL,
                "nested": call("find-feature", fid(kind, 1)), "nested-err": call("find-feature", fid(kind, 999))}.get(cls)
    if t in ("b6.Feature", "b6.PhysicalFeature"):
        return {"ok": FEATURE, "missing-id": call("find-feature", PMISSING), "invalid-id": call("find-feature", INVALID),
                "wrong-kind": P1, "nil": NIL, "nested": PATHF, "nested-err": call("find-feature", fid("collection", 1)),
                "empty": call("find-feature", fid("point", 6))}.get(cls)
    if t == "b6.AreaFeature":
        return {"ok": AREAF, "missing-id": call("find-area", fid("area", 999)), "invalid-id": call("find-area", P1),
                "wrong-kind": AREA1, "nil": NIL, "nested": AREAF, "nested-err": FEATURE}.get(cls)
    if t == "b6.Area":
        return {"ok": AREAF, "missing-id": call("find-area", fid("area", 999)), "wrong-kind": INT(7), "nil": NIL,
                "nested": call("cap-polygon", POINT, FLT(30.0)), "nested-err": FEATURE,
                "empty": call("collect-areas", coll([]))}.get(cls)
    if t == "b6.Geometry":
        return {"ok": POINT, "wrong-kind": INT(7), "nil": NIL, "nested": PATHF, "nested-err": call("find-feature", PMISSING),
                "missing-id": call("find-feature", PMISSING), "empty": call("centroid", call("find-feature", fid("relation", 1)))}.get(cls)
    if t == "b6.Tag":
        return {"ok": TAG, "empty": {"tag": ["", ""]}, "wrong-kind": INT(7), "nil": NIL,
                "nested": call("get", P1, STR("name")), "nested-err": call("get", PMISSING, STR("name")),
                "missing-id": call("get", P1, STR("nosuchkey"))}.get(cls)
    if t == "b6.Query":
        return {"ok": QUERY, "empty": {"query": ["all"]}, "wrong-kind": STR("x"), "nil": NIL,
                "nested": call("and", call("keyed", STR("#amenity")), call("tagged", STR("#amenity"), STR("cafe"))),
                "nested-err": call("typed", STR("nosuchtype"), call("all"))}.get(cls)
    if t == "api.Callable":
        return {"ok": IDENT, "bad-arity": lam(["a", "b", "c"], sym("a")), "empty": lam([], INT(1)), "wrong-kind": INT(7), "nil": NIL,
                "nested": call("gt", INT(1)), "nested-err": sym("add-ints")}.get(cls)
    if t.startswith("func("):
        return {"ok": lam([], INT(1)), "bad-arity": IDENT, "wrong-kind": INT(7), "nil": NIL,
                "nested": call("add-ints", INT(1)), "nested-err": lam([], call("first", INT(1)))}.get(cls)
    if t == "api.Pair":
        return {"ok": call("pair", INT(1), INT(2)), "wrong-kind": INT(7), "nil": NIL,
                "nested": call("pair", NIL, NIL), "nested-err": call("first", INT(1))}.get(cls)
    if t == "ingest.Change":
        return {"ok": CHANGE, "wrong-kind": INT(7), "nil": NIL, "nested": call("merge-changes", coll([])),
                "nested-err": call("add-tag", PMISSING, TAG), "missing-id": call("add-tag", PMISSING, TAG),
                "empty": call("merge-changes", coll([]))}.get(cls)
    if t == "geojson.GeoJSON":
        return {"ok": call("parse-geojson", STR(GEOJSON_POLY)), "wrong-kind": STR(GEOJSON_POINT), "nil": NIL,
                "nested": call("to-geojson", POINT), "nested-err": call("parse-geojson", STR("{")),
                "empty": call("parse-geojson", STR('{"type":"FeatureCollection","features":[]}'))}.get(cls)
    if t == "b6.Expression":
        return {"ok": lam([], INT(1)), "wrong-kind": INT(7), "nil": NIL, "nested": call("gt", INT(1)), "bad-arity": IDENT}.get(cls)
    if t == "interface {}":
        return {"ok": INT(1), "nil": NIL, "wrong-kind": IDENT, "zero": INT(0), "neg": FLT(-1.5), "empty": coll([]),
                "nested": call("pair", INT(1), INT(2)), "nested-err": call("first", INT(1)), "missing-id": PMISSING}.get(cls)
    if t == "[]interface {}":
        return {"ok": call("pair", INT(1), INT(2)), "nil": NIL, "wrong-kind": INT(7)}.get(cls)
    return {"ok": INT(1), "nil": NIL}.get(cls)


# well-formed arguments for functions whose parameters need more than a type-correct value to get past
# their first check (so that the exploration reaches their bodies)
OK_ARGS = {
    "find-area": [AREA1], "find-relation": [REL1], "find-collection": [COLL1], "evaluate-feature": [EXPR1],
    "list-feature": [COLL1], "typed": [STR("point"), None], "tagged": [STR("#amenity"), STR("cafe")], "keyed": [STR("#amenity")],
    "get": [P1, STR("name")], "get-string": [P1, STR("name")], "get-int": [P1, STR("level")], "get-float": [P1, STR("level")],
    "count-tag-value": [AREA1, STR("#building")], "s2-center": [STR("48761b3dc")], "s2-polygon": [STR("48761b3dc")],
    "parse-geojson": [STR(GEOJSON_POLY)], "import-geojson": [None, STR("verif/imported")], "length": [PATHF],
    "interpolate": [PATHF, FLT(0.5)], "sample-points": [PATHF, FLT(20.0)], "points": [PATHF], "join": [PATHF, call("find-feature", fid("path", 2))],
    "ordered-join": [PATHF, call("find-feature", fid("path", 2))], "s2-covering": [None, INT(18), INT(20)], "s2-grid": [None, INT(20)],
    "s2-points": [None, INT(19), INT(20)], "tile-paths": [None, INT(16)], "reachable": [FEATURE, coll([]), FLT(300.0), {"query": ["all"]}],
    "reachable-area": [FEATURE, coll([]), FLT(300.0)], "closest": [FEATURE, coll([]), FLT(300.0), QUERY],
    "closest-distance": [FEATURE, coll([]), FLT(300.0), QUERY], "paths-to-reach": [FEATURE, coll([]), FLT(300.0), QUERY],
    "accessible-all": [None, QUERY, FLT(300.0), coll([])], "accessible-routes": [P1, QUERY, FLT(300.0), coll([])],
    "connect": [FEATURE, call("find-feature", fid("point", 6))], "connect-to-network": [call("find-feature", fid("point", 6))],
    "add-point": [POINT2, fid("point", 50), None], "add-relation": [fid("relation", 50), None, None],
    "add-collection": [fid("collection", 50), None, None], "add-expression": [fid("expression", 50), None, None],
    "add-world-with-change": [fid("collection", 77), None], "materialise": [fid("collection", 60), lam([], coll([[tv("int", 1), tv("int", 2)]]))],
    "materialise-map": [None, fid("collection", 61), lam(["f"], coll([[tv("int", 1), tv("int", 2)]]))],
    "building-access": [None, FLT(100.0), STR("walk")], "entrance-approach": [AREAF], "snap-area-edges": [AREAF, {"query": ["keyed", "#highway"]}, FLT(10.0)],
    "sightline": [POINT, FLT(50.0)], "degree": [call("find-feature", fid("point", 3))], "point-paths": [fid("point", 3)],
    "point-features": [PATHF], "matches": [P1, QUERY], "with-change": [CHANGE, lam([], call("find", QUERY))],
    "histogram-with-id": [None, fid("collection", 70)], "histogram-swatch-with-id": [None, fid("collection", 71)],
    "id-to-relation-id": [STR("verif/r"), P1], "call": [IDENT, INT(1)], "collection": [call("pair", INT(1), INT(2)), call("pair", INT(3), INT(4))],
    "apply-to-point": [lam(["p"], sym("p"))], "apply-to-path": [lam(["p"], sym("p"))], "apply-to-area": [lam(["a"], sym("a"))],
    "map-geometries": [None, lam(["g"], sym("g"))], "distance-meters": [POINT, POINT2], "distance-to-point-meters": [PATHF, POINT2],
    "rectangle-polygon": [POINT, POINT2], "divide": [INT(7), INT(2)], "debug-all-query": [STR("amenity=cafe")],
    "filter": [None, lam(["v"], call("gt", sym("v"), INT(1)))], "map-items": [None, lam(["p"], call("pair", call("second", sym("p")), call("first", sym("p"))))],
    "export-world": [STR("/tmp/coll-should-never-be-written.index")], "changes-to-file": [STR("/tmp/coll-should-never-be-written.yaml")],
    "changes-from-file": [STR("/tmp/coll-no-such-file.yaml")], "parse-geojson-file": [STR("/tmp/coll-no-such-file.geojson")],
    "import-geojson-file": [STR("/tmp/coll-no-such-file.geojson"), STR("verif/imported")], "tile-ids": [AREAF], "tile-ids-hex": [AREAF],
    "get-centroid": [AREA1], "convex-hull": [coll([[tv("int", 0), tv("point", [51.535, -0.125])], [tv("int", 1), tv("point", [51.536, -0.124])], [tv("int", 2), tv("point", [51.536, -0.125])]])],
}


def normalise(shape, n):
    """Drop deviations at positions the function does not have; canonical signature."""
    dev = [c if i < n else "ok" for i, c in enumerate(shape["dev"])]
    return {"callee": shape["callee"], "arity": shape["arity"], "wrap": shape["wrap"], "dev": dev[:max(n, 0)]}


def sig(ns):
    return "callee=%s arity=%s dev=[%s] wrap=%s" % (ns["callee"], ns["arity"], ",".join(ns["dev"]), ns["wrap"])


def weight(ns):
    return (sum(1 for c in ns["dev"] if c != "ok") + (ns["callee"] != "symbol") + (ns["arity"] != "exact") + (ns["wrap"] != "plain"))


def subshapes(ns):
    """Shapes with exactly one departure less."""
    out = []
    for i, c in enumerate(ns["dev"]):
        if c != "ok":
            d = dict(ns)
            d["dev"] = ns["dev"][:i] + ["ok"] + ns["dev"][i + 1:]
            out.append(d)
    for f, plain in (("callee", "symbol"), ("arity", "exact"), ("wrap", "plain")):
        if ns[f] != plain:
            d = dict(ns)
            d[f] = plain
            out.append(d)
    return out


def instantiate(s, ns):
    """The request expression of normalised shape ns for function signature s, or None when some slot
    class does not exist for the parameter's type (the shape then coincides with a lighter one)."""
    name, types = s["name"], list(s["in"])
    variadic = s["variadic"]
    n = len(types)
    ok = OK_ARGS.get(name, [])
    args = []
    for i, t in enumerate(types):
        cls = ns["dev"][i]
        a = None
        if cls == "ok" and i < len(ok) and ok[i] is not None:
            a = ok[i]
        else:
            a = pool(t, cls, i, name)
        if a is None:
            return None
        args.append(a)
    if variadic and name in OK_ARGS and len(OK_ARGS[name]) > n:
        args += OK_ARGS[name][n:]
    if ns["arity"] == "fewer":
        if not args:
            return None
        args = args[:-1]
    elif ns["arity"] == "none":
        if not args:
            return None
        args = []
    elif ns["arity"] == "more":
        args = args + [INT(7)]
    f = sym(name)
    c = ns["callee"]
    if c == "symbol":
        e = call(f, *args)
    elif c == "lambda":
        names = ["x%d" % i for i in range(n)]
        e = {"call": [lam(names, call(f, *[sym(x) for x in names]))] + args}
    elif c == "partial":
        if len(args) < 1:
            return None
        e = {"call": [call(f, *args[1:]), args[0]]}
    elif c == "partial2":
        if len(args) < 2:
            return None
        e = {"call": [{"call": [call(f, *args[2:]), args[1]]}, args[0]]}
    elif c == "viacall":
        e = call("call", f, *args)
    elif c == "asvalue":
        if len(args) < 1:
            return None
        fn = f if len(args) == 1 else call(f, *args[1:])
        e = call("map", call("collection", call("pair", INT(0), args[0])), fn)
    elif c == "nonfunc":
        e = {"call": [call(f, *args), INT(1)]}
    else:
        raise ValueError(c)
    w = ns["wrap"]
    if w == "count":
        e = call("count", e)
    elif w == "first":
        e = call("take", e, INT(1))
    elif w == "mapped":
        e = call("map", e, IDENT)
    return e


GENERIC_SITES = ("api.compile", "api.(*VM)", "api.(*partialCall)", "api.(*lambdaCall)", "api.goCall", "api.(*goCall)",
                 "api.(*compilation)", "api.newVM", "api.Evaluate", "api.Simplify", "api.simplify", "api.Convert",
                 "api.convert")
PAST_EVALUATE = ("apply", "literal", "proto", "marshal", "done")


def failure_of(v):
    """None if the verdict is an allowed outcome, else a short name of what went wrong."""
    if v.get("ok"):
        return None
    o = v.get("obs") or {}
    if isinstance(o, dict) and o.get("kind") == "panic":
        return "panic:%s:%s" % (o.get("stage"), o.get("site"))
    k = v.get("key", "failure")
    if k.startswith("timeout"):
        return "timeout"
    if k.startswith("crash:") and "verif memory limit exceeded" in k:
        # a computation that never finishes either runs into the deadline or, on a fast machine, into the worker's
        # heap watchdog first: the same observation ("does not return"), so the same key
        return "timeout"
    if k.startswith("crash:"):
        return k
    return k.split(":")[0]


def structure_programs():
    a, b, c, f, k, x = (sym(n) for n in "abcfkx")
    add = lambda p, q: call("add-ints", p, q)
    ints = coll([[tv("int", 1), tv("int", 10)], [tv("int", 2), tv("int", 20)], [tv("int", 3), tv("int", 30)]])
    return [
        ("partial-made-outside-completed-inside-then-own-parameter",
         call(lam(["f"], call(lam(["x"], add(call("call", f, INT(2)), x)), INT(10))), call("add-ints", INT(1)))),
        ("partial-made-outside-completed-inside-own-parameter-first",
         call(lam(["f"], call(lam(["x"], add(x, call("call", f, INT(2)))), INT(10))), call("add-ints", INT(1)))),
        ("partial-and-value-as-two-parameters",
         call(lam(["f", "x"], add(call("call", f, INT(2)), x)), call("add-ints", INT(1)), INT(10))),
        ("lambda-partially-applied-then-completed", call(call(lam(["a", "b"], add(a, b)), INT(1)), INT(2))),
        ("lambda-applied-in-three-steps",
         call(call(call(lam(["a", "b", "c"], add(a, add(b, c))), INT(1)), INT(2)), INT(3))),
        ("argumentless-lambda-as-second-argument", add(INT(10), call(lam([], INT(2))))),
        ("argumentless-lambda-returned-by-a-call-as-second-argument",
         add(INT(10), call(call(lam(["a"], lam([], a)), INT(7))))),
        ("closure-returned-and-applied", call(call(lam(["a"], lam(["b"], add(a, b))), INT(1)), INT(2))),
        ("closure-returned-through-call", call("call", call("call", lam(["a"], lam(["b"], add(a, b))), INT(1)), INT(2))),
        ("map-with-variable-of-enclosing-lambda",
         call(lam(["k"], call("map", ints, lam(["x"], add(k, add(x, INT(0)))))), INT(1000))),
        ("map-parallel-with-variable-of-enclosing-lambda",
         call(lam(["k"], call("map-parallel", ints, lam(["x"], add(k, add(x, INT(0)))))), INT(1000))),
        ("map-of-map-with-outer-variable",
         call(lam(["k"], call("map", ints, lam(["x"], call("map", ints, lam(["a"], add(a, add(x, k))))))), INT(5))),
        ("map-parallel-returning-lazy-collections",
         call("map-parallel", ints, lam(["x"], call("map", ints, lam(["a"], add(a, x)))))),
        ("filter-with-partial-made-outside",
         call(lam(["f"], call("filter", ints, lam(["x"], call("gt", call("call", f, x), INT(15))))), call("add-ints", INT(1)))),
        ("take-of-map-with-closure", call("take", call(lam(["k"], call("map", ints, lam(["x"], add(x, k)))), INT(7)), INT(2))),
        ("same-lambda-applied-twice-with-different-values",
         call(lam(["f"], add(call("call", call("call", f, INT(1)), INT(10)), call("call", call("call", f, INT(2)), INT(100)))),
              lam(["a"], call("add-ints", a)))),
    ]


def run(ctx):
    rng = random.Random(ctx.seed)
    r = ctx.tlc("Requests", ctx.pick("Requests.cfg", "RequestsThorough.cfg"))
    shapes = r.lines.get("CASE", [])
    if len(shapes) < 1000:
        raise Exception("shape export too small: %d" % len(shapes))
    binary = ctx.go_build("vh-coll")
    sigs, _ = ctx.run_tool(binary, ["sigs"])
    if len(sigs) < 100:
        raise Exception("function registry too small: %d" % len(sigs))
    allowed = shapes[0]["allowed"]
    maxw = max(s["weight"] for s in shapes)
    # how many shapes of each weight are instantiated per function: None = all of them
    per_weight = ctx.pick({0: None, 1: None, 2: 60}, {0: None, 1: None, 2: None, 3: 150})
    timeout_ms = ctx.pick(4000, 8000)

    failing = {}          # (function, signature) -> failure, for every failing request seen so far
    reported = {}
    outcomes = {}
    evaluated_syms, value_syms, called = set(), set(), set()
    explained = 0
    ncase = 0
    for w in range(0, maxw + 1):
        quota = per_weight.get(w, 0)
        if quota == 0:
            continue
        level = [s for s in shapes if s["weight"] == w]
        cases, meta = [], []
        for s in sigs:
            n = len(s["in"])
            todo = list(level)
            if quota is not None:
                rng.shuffle(todo)
            seen = set()
            made = 0
            for shape in todo:
                ns = normalise(shape, n)
                if weight(ns) != w:
                    continue             # coincides with a lighter shape for this function
                k = sig(ns)
                if k in seen:
                    continue
                seen.add(k)
                if quota is not None and made >= quota:
                    break
                # a shape one of whose sub-shapes already fails is explained by that sub-shape
                if any((s["name"], sig(sub)) in failing for sub in subshapes(ns)):
                    explained += 1
                    failing[(s["name"], k)] = "explained"      # so that still heavier shapes are explained too
                    continue
                e = instantiate(s, ns)
                if e is None:
                    continue
                cases.append({"id": len(cases), "expr": e, "sym": s["name"], "sig": k, "allowed": allowed,
                              "cores": 2 + (ncase % 2) * 2})
                meta.append(ns)
                ncase += 1
                made += 1
                called.add(s["name"])
                ctx.distinct_cases.add(s["name"] + " " + k)
        if w == 0:
            missing = [s["name"] for s in sigs if s["name"] not in called]
            if missing:
                raise Exception("functions never called: %s" % missing)
            ctx.sample({"sym": cases[3]["sym"], "sig": cases[3]["sig"], "expr": cases[3]["expr"]})
        if w == 1:
            ctx.sample({"sym": cases[len(cases) // 2]["sym"], "sig": cases[len(cases) // 2]["sig"], "expr": cases[len(cases) // 2]["expr"]})
        if not cases:
            continue
        vs = ctx.run_cases(binary, "req", cases, timeout_ms=timeout_ms, name="req-w%d" % w)
        # a request that got no answer in time is run again, alone in a fresh worker and with a longer
        # deadline, so that a busy machine (or a worker slowed down by an earlier request) is not reported as a hang
        slow = [v["id"] for v in vs if not v.get("ok") and str(v.get("key", "")).startswith(("timeout", "crash:"))]
        if slow:
            again = ctx.run_cases(binary, "req", [cases[i] for i in slow], timeout_ms=timeout_ms * 3, workers=6,
                                  name="req-w%d-again" % w)
            byid = {v["id"]: v for v in again}
            vs = [byid.get(v["id"], v) for v in vs]
            ctx.extra_cov["requests_run_again_after_a_timeout"] = ctx.extra_cov.get("requests_run_again_after_a_timeout", 0) + len(slow)
        for v in vs:
            ctx.evaluations += 1
            c = cases[v["id"]]
            o = v.get("obs") if isinstance(v.get("obs"), dict) else {}
            what = failure_of(v)
            kind = o.get("kind") if what is None else what.split(":")[0]
            outcomes[kind] = outcomes.get(kind, 0) + 1
            if what is None:
                if o.get("stage") in PAST_EVALUATE:
                    evaluated_syms.add(c["sym"])
                if kind == "value":
                    value_syms.add(c["sym"])
                continue
            failing[(c["sym"], c["sig"])] = what
            ns = meta[v["id"]]
            site = what.split(":")[-1] if what.startswith("panic") else ""
            if what.startswith("panic") and ns["callee"] != "symbol" and any(site.startswith(g) for g in GENERIC_SITES):
                # a failure inside the VM's call machinery does not depend on which library function is called
                key = "%s:*:callee=%s arity=%s" % (what, ns["callee"], ns["arity"])
            else:
                key = "%s:%s:%s" % (what, c["sym"], c["sig"])
            reported[key] = reported.get(key, 0) + 1
            ctx.fail(key, v.get("msg", ""), {"verdict": v, "case": c})
    # ---- programs whose STRUCTURE stresses the VM's call machinery (closures, partial applications made outside a
    # lambda and completed inside it, several-step partials, argument-less lambdas, lambdas run by map and
    # map-parallel with a variable of an enclosing lambda): one request each, through the same handler
    cases = [{"id": i, "expr": e, "sym": "vm-structure", "sig": name, "allowed": allowed, "cores": 2 + (i % 2) * 2}
             for i, (name, e) in enumerate(structure_programs())]
    vs = ctx.run_cases(binary, "req", cases, timeout_ms=timeout_ms, name="req-structure")
    for v in vs:
        ctx.evaluations += 1
        c = cases[v["id"]]
        ctx.distinct_cases.add("vm-structure " + c["sig"])
        what = failure_of(v)
        if what is not None:
            ctx.fail("%s:vm-structure:%s" % (what, c["sig"]), v.get("msg", ""), {"verdict": v, "case": c})
    ctx.extra_cov["structure_programs"] = len(cases)
    ctx.extra_cov["request_shapes"] = len(shapes)
    ctx.extra_cov["functions_registered"] = len(sigs)
    ctx.extra_cov["functions_called"] = len(called)
    ctx.extra_cov["functions_evaluated_to_a_value_at_least_once"] = len(evaluated_syms)
    ctx.extra_cov["functions_never_past_evaluate"] = sorted(called - evaluated_syms)
    ctx.extra_cov["functions_answered_completely_at_least_once"] = len(value_syms)
    ctx.extra_cov["outcomes"] = outcomes
    ctx.extra_cov["minimal_failing_requests"] = sum(1 for w in failing.values() if w != "explained")
    ctx.extra_cov["shapes_not_run_because_a_sub_shape_already_fails"] = explained
    return ctx.finish(
        "exploration",
        rule="Requests.tla enumerates every request shape of weight <= %d (callee form in symbol/lambda literal/partial/"
             "partial twice/via call/as function value/result used as function; argument count exact/one fewer/none/one "
             "more; per argument slot one of 12 classes of unusual value; result used plain/counted/taken/mapped). Shapes "
             "are instantiated for each of the registered functions (signatures read from functions.Functions() by "
             "reflection) in order of weight: %s; a shape one of whose sub-shapes already failed is not run (the failure "
             "is reported once, for the minimal shape). Each request is handled like service.Evaluate (wire decode, "
             "Simplify, api.Evaluate with FileIOAllowed=false, apply change, FromLiteral, ToProto, Marshal) on a fresh "
             "scratch world in a worker process with a deadline. distinct = distinct (function, normalised shape) pairs."
             % (maxw, ctx.pick("all of weight <= 1, a seeded sample of 60 per function of weight 2",
                               "all of weight <= 2, a seeded sample of 150 per function of weight 3")),
        assumptions=["one scratch world; one representative value per (parameter type, class)",
                     "requests that cannot be encoded into the wire format are not judged (a client cannot send them)",
                     "file functions are exercised only up to their FileIOAllowed check",
                     "a request that does not answer within the per-request deadline counts as a hang",
                     "only minimal failing shapes are reported: a heavier shape containing a failing one is not run"],
        exhaustive=False)
