"""C01 -- compact index round-trips every feature it accepts.  Spec: StaticWorld.tla, scenario 1 (+ value-kind cases)."""
import sworld

META = {
    "engine": "sworld",
    "level": "model_checking",
    "text": "StaticWorld.tla defines what a build keeps (ValidSubset) and the world it must then be (lookup with tags and "
            "geometry, enumeration each ID once); TLC enumerates 1080 sources mixing valid and invalid features of every "
            "class and checks the design invariants; every source is built with compact.BuildInMemory (1 and 3 goroutines) "
            "and loaded with NewWorldFromData in a child process (a crash is an observation) and lookup by ID, tags, "
            "point locations, path point sequences, area polygons, relation members and EachFeature must equal the spec's.",
    "note": "Small scope: 9-10 IDs, two namespaces and mixed reference/location geometry in scenario 4 only, string tag values. Collections are not part of the "
            "compact format and are left out. Byte-level codec fidelity for every record kind and value class is C11's; "
            "64-bit ID packing is C10's. Trusted: TLC, harness/obs, vh-world.",
    "technique": "TLA+ spec (StaticWorld) enumerated by TLC; every case built as a compact index and observed",
}


def run(ctx):
    # sources with several areas over shared paths, fed to the builder in ID order and in reverse ID order (areas
    # arrive before their paths and wait in the validator's queue)
    sworld.run_static(
        ctx, "C01", 3,
        variants=[{"impl": "compact", "cores": 1, "order": "rev", "max": (36, 200)}, {"impl": "compact", "cores": 2, "max": (8, 100)}],
        sections=["lookup", "each", "problems", "build", "observe"], rule="", finish=False)
    # mixed geometry (references next to raw locations), references from two namespaces in every order
    sworld.run_static(
        ctx, "C01", 4,
        variants=[{"impl": "compact", "cores": 1, "max": (40, 600)}, {"impl": "compact", "cores": 3, "max": (8, 200)}],
        sections=["lookup", "each", "problems", "build", "observe"], rule="", finish=False)
    return sworld.run_static(
        ctx, "C01", 1,
        variants=[{"impl": "compact", "cores": 1, "max": (45, 600)}, {"impl": "compact", "cores": 3, "max": (15, 200)}],
        sections=["lookup", "each", "problems", "build", "observe"],
        rule="every source TLC enumerates for scenario 1 built as a compact index with 1 and 3 goroutines; "
             "distinct = (cores, source)",
        max_cases=ctx.pick(400, None))
