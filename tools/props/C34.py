"""C34 -- iterative Douglas-Peucker = recursive reference; end points kept; subsequence.

Spec: DouglasPeucker.tla (+ DouglasPeuckerTrace.tla).  Binding A: every behaviour TLC enumerates for small lines is
realised by concrete lines and executed on the real functions.  Binding B: oracles measured on seeded lines of up to
40 points are run through the model by TLC and the real functions are held to the model's result."""
import json
import os

from vlib import Inconclusive

META = {
    "engine": "dp",
    "level": "model_checking",
    "text": "DouglasPeucker.tla models the explicit-stack loop of douglasPeuckerSimplify action by action and the "
            "recursive reference as a recursive operator, both over an abstract split oracle (per interval: index of "
            "the farthest interior point, or none above epsilon). TLC proves equality, end-point preservation, strictly "
            "increasing indices and termination for EVERY oracle of lines up to 6 points, and for every lazily "
            "answered oracle up to 8 (thorough: 11) points. Every behaviour so enumerated is realised by seeded "
            "concrete lines whose oracle is measured with the real distance function, and renderer.Simplify, the "
            "iterative function and the reference are compared with the indices TLC computed; lines of up to 40 "
            "points are measured, run through the model by TLC and compared likewise, and the two real functions are "
            "compared directly.",
    "note": "The oracle abstraction puts the farthest-point scan (strict '>' comparisons, first maximum wins) into the "
            "harness's 8-line measureSplit, which uses the real distance(). Coordinates are finite and moderate "
            "(no NaN/overflow), epsilon >= 0 incl. +Inf. Trusted: TLC, renderer/export_verif.go, the Go adapter.",
    "technique": "TLA+ spec (DouglasPeucker) + TLC exhaustive over all split oracles; behaviours realised on "
                 "renderer.Simplify and the recursive reference; measured oracles of generated lines evaluated by TLC",
}


def run(ctx):
    binary = ctx.go_build("vh-dp")

    # ---- the design: every oracle, small lines
    ctx.tlc("DouglasPeucker", "DouglasPeucker.cfg")
    if not ctx.quick:
        ctx.tlc("DouglasPeucker", "DouglasPeuckerFull6.cfg", timeout=1500)

    # ---- binding A: every behaviour of the model, realised by concrete lines
    r = ctx.tlc("DouglasPeucker", ctx.pick("DouglasPeuckerLazy.cfg", "DouglasPeuckerLazyBig.cfg"), timeout=1500)
    behaviours = r.lines.get("CASE", [])
    by_n = {}
    seen = set()
    for b in behaviours:
        k = json.dumps([b["n"], sorted(b["reads"]), b["out"]])
        if k in seen:
            continue
        seen.add(k)
        by_n.setdefault(b["n"], []).append({"reads": sorted(b["reads"]), "out": b["out"]})
    if len(by_n.get(5, [])) != 9 or len(by_n.get(8, [])) != 154:
        raise Inconclusive("unexpected number of behaviours exported: %s" % {n: len(v) for n, v in by_n.items()})
    cases = []
    for n in sorted(by_n):
        bs = sorted(by_n[n], key=lambda b: json.dumps(b))
        # several cases per n: more lines, other seeds, run in parallel
        shards = 1 if n <= 4 else ctx.pick(2, 6)
        for s in range(shards):
            cases.append({"id": len(cases), "n": n, "behaviours": bs, "lines": ctx.pick(30000, 200000),
                          "seed": ctx.seed * 100 + s})
    vs = ctx.run_cases(binary, "small", cases, timeout_ms=600000, name="small")
    realised = {}
    for v in vs:
        c = cases[v["id"]]
        if v.get("ok") and isinstance(v.get("obs"), dict):
            miss = set(v["obs"].get("unrealised") or [])
            got = realised.setdefault(c["n"], set())
            got |= set(range(len(c["behaviours"]))) - miss
    ctx.absorb(vs, case_of=lambda i: {k: v for k, v in cases[i].items() if k != "behaviours"})
    ctx.evaluations += ctx.extra_cov.get("small_lines", 0) - len(vs)     # every generated line is one evaluation
    total = sum(len(v) for v in by_n.values())
    got = sum(len(v) for v in realised.values())
    for n in sorted(by_n):
        for j in realised.get(n, ()):
            ctx.distinct_cases.add("n%d-b%d" % (n, j))
    ctx.extra_cov["model_behaviours"] = total
    ctx.extra_cov["model_behaviours_realised_on_impl"] = got
    ctx.extra_cov.pop("behaviours", None)
    ctx.extra_cov.pop("behaviours_realised", None)
    if got < total:
        per = {n: "%d/%d" % (len(realised.get(n, ())), len(by_n[n])) for n in sorted(by_n) if len(realised.get(n, ())) < len(by_n[n])}
        ctx.note("behaviours of the model not realised by a generated line (not failures): %s" % per)
    ctx.sample({"n": 5, "behaviour": by_n[5][3]})

    # ---- binding B: measured oracles of longer lines, evaluated by TLC
    count = ctx.pick(400, 4000)
    cpath = os.path.join(ctx.work, "dp_cases.ndjson")
    lpath = os.path.join(ctx.work, "dp_lines.ndjson")
    ctx.run_tool(binary, ["measure", "--seed", str(ctx.seed), "--count", str(count), "--maxn", "44",
                          "--cases", cpath, "--lines", lpath])
    r = ctx.tlc("DouglasPeuckerTrace", "DouglasPeuckerTrace.cfg", files={"dp_cases.ndjson": open(cpath).read()},
                workers=1, heap="4g", timeout=1500)
    model = {c["id"]: c for c in r.lines.get("CASE", [])}
    lines = [json.loads(x) for x in open(lpath) if x.strip()]
    if len(model) != len(lines):
        raise Inconclusive("TLC evaluated %d of %d measured oracles" % (len(model), len(lines)))
    for ln in lines:
        m = model[ln["id"]]
        ln["out"], ln["ref"], ln["reads"] = m["out"], m["ref"], m["reads"]
    vs = ctx.run_cases(binary, "line", lines, timeout_ms=20000, name="line")
    ctx.absorb(vs, case_of=lambda i: lines[i])
    ctx.traces_validated += len(lines)
    for ln in lines:
        ctx.distinct_cases.add("L" + json.dumps([len(ln["pts"]), sorted(ln["reads"])]))
    ctx.extra_cov["measured_lines"] = len(lines)
    ctx.extra_cov["measured_lines_longest"] = max(len(x["pts"]) for x in lines)
    ctx.sample({k: lines[7][k] for k in ("class", "eps_kind", "eps", "pts", "out")})

    return ctx.finish(
        "model_checking",
        rule="TLC checks Equal/Shape/termination for every split oracle of lines of 2..5 (quick) / 2..6 (thorough) "
             "points and every lazily answered oracle up to 8 / 11 points, and prints each behaviour (answers read, "
             "kept indices). Seeded lines of each length are generated, their oracle measured with the real distance(), "
             "matched to the behaviour, and renderer.Simplify, douglasPeuckerSimplify and the recursive reference are "
             "compared with TLC's indices, with each other, and checked for end points and subsequence. Seeded lines "
             "of 2..44 points (random, integer grids with ties, collinear, closed, duplicate points, zigzags, spikes; "
             "epsilon 0, tiny, huge, +Inf, exactly a measured distance) have their complete oracle measured, TLC runs "
             "the model on it, the real functions are compared with the result. distinct = model behaviours realised "
             "+ distinct (length, answers read) classes among the measured lines.",
        assumptions=["coordinates are finite and of moderate size (no NaN, no overflow in distance()); epsilon >= 0",
                     "lines have at least 2 points (Simplify's own guard covers 1; 0 points is outside the statement)",
                     "'same points' is exact equality of coordinates; both functions evaluate distance() on the same "
                     "arguments, so floating point does not separate them"],
        exhaustive=True)
