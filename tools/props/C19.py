"""C19 -- expressions survive the client/server wire format.

Specs: ExprWire.tla (abstract codec: what ToProto/FromProto keep, coerce and derive; b6's own Equal; the query and
literal kinds) and ExprTree.tla (all call/pipeline/lambda shapes up to a node count).  Every enumerated object is
concretised (numeric extremes, strings, IDs, E7 geometry, positions and names on every node) and executed on the real
Expression.ToProto / ExpressionFromProto (binding A).  The verdict is taken from the real code only.
"""
import copy
import random

from vlib import canon
from props import exprlib as X

META = {
    "engine": "expr",
    "level": "exploration",
    "text": "ExprWire.tla is an abstract model of the protobuf codec (per-node name/begin/end, literal kinds, query kinds, "
            "b6's Equal as implemented); TLC checks Dec(Enc(t)) = t, Equal both ways and Enc idempotence over all literal "
            "kinds x position classes and all query trees up to a node count, and exports them; ExprTree.tla contributes every "
            "call/pipeline/lambda shape up to a node count. Every object is concretised with class tables (int64/float "
            "extremes, strings with quotes/backslashes/unicode/empty, IDs with '/' namespaces and 64-bit values, E7 points, "
            "paths, areas, routes, nested collections) and with distinct positions and names on every node, then executed on "
            "the real ToProto/ExpressionFromProto and compared by b6's Equal AND by an independent deep comparison, a "
            "second pass (proto.Equal), and against the message a client would have written. Exploration level: family R is "
            "the weakest fit of a TLA+ approach (DESIGN.md section 7): the spec supplies the structured, exhaustively "
            "enumerated space of kinds and shapes and the model of what the codec coerces; byte/field equality is decided in Go.",
    "note": "Domain = what a client can send and the server decodes: symbols, calls, lambdas, int/float(not NaN)/bool/string/"
            "feature-id/tag(string value)/point/path/area/route/collection literals, queries all/keyed/tagged/typed/and/or/"
            "intersects-feature/-point/-polyline/-multipolygon/-cap; positions in 0..2^31-1. Outside (reported as "
            "observations, never as verdicts): nil, tags with non-string values, empty/is-valid/intersects-cells/"
            "might-intersect queries, GeoJSON and feature literals (FromProto unimplemented), NaN. Bounds: shapes <= 5/6 "
            "nodes, query trees <= 3/5 nodes. Trusted: TLC, the Go adapter's deep comparison and client-message builder.",
    "technique": "TLA+ specs (ExprWire abstract codec, ExprTree shapes) + TLC exhaustive enumeration; every object replayed on "
                 "b6.Expression.ToProto / b6.ExpressionFromProto",
}

TREE_CFG = """SPECIFICATION Spec
CONSTANTS
  MaxSize = %d
  MaxArgs = 2
  MaxQSize = 1
  MaxStr = 0
  Kinds = {"shape"}
  ExprHeads = TRUE
  GroupQueries = FALSE
  GroupPipeHead = "none"
  LexerUnescapes = FALSE
  EscapeTagValues = FALSE
CONSTRAINT Emit
CHECK_DEADLOCK FALSE
"""

WIRE_CFG = """SPECIFICATION Spec
CONSTANTS
  MaxQSize = %d
  Sendable = %s
  FixSpatialEqual = %s
%s
CHECK_DEADLOCK FALSE
"""

POS = {"zero": (0, 0, ""), "small": (3, 17, "nm"), "max31": (2147483647, 2147483647, "näme 日\"q\""),
       "over31": (2147483648, 4294967297, "")}
RADII = ["100", "250.5", "1", "1000", "0.5", "12345.678"]


def leaf_classes(kind):
    """Every class of a literal kind (concrete trees)."""
    if kind == "sym":
        return [X.S(s) for s in X.SYMBOLS + ["", "_py_140213", "sp ace", "ü"]]
    if kind == "int":
        return [X.INT(c) for c in X.INTS]
    if kind == "float":
        return [X.FLT(c) for c in X.FLOATS_WIRE]
    if kind == "bool":
        return [X.BOOL(True), X.BOOL(False)]
    if kind == "str":
        return [X.STR(s) for s in X.WIRE_STRINGS]
    if kind == "id":
        return copy.deepcopy(X.IDS_WIRE)
    if kind == "tag":
        return [X.TAG(k, v) for k in X.WIRE_KEYS for v in ("yes", "")] + [X.TAG("#a", v) for v in X.WIRE_TAG_VALUES]
    if kind == "point":
        return [X.PT_E7(a, b) for a, b in X.POINTS_E7]
    if kind == "path":
        return [{"k": "path", "pts": p} for p in X.PATHS]
    if kind == "area":
        return [{"k": "area", "polys": a} for a in X.AREAS]
    if kind == "route":
        return [X.route(n) for n in (0, 1, 3)]
    if kind == "coll":
        rng = random.Random(19)
        fixed = [{"k": "coll", "items": []},
                 {"k": "coll", "items": [[X.INT(i), v] for i, v in enumerate(
                     [X.INT("-9223372036854775808"), X.FLT("max"), X.BOOL(True), X.STR("a\"b\\c"), X.IDS_WIRE[2], X.TAG("#a", "b"),
                      X.PT_E7(515000000, -1000000)])]},
                 {"k": "coll", "items": [[X.STR("k"), {"k": "coll", "items": [[X.IDS_WIRE[0], X.STR("")]]}]]}]
        return fixed + [X.wire_collection(rng) for _ in range(12)]
    if kind in ("nil", "tagint"):
        return [{"k": kind}]
    raise Exception("unknown literal kind " + kind)


def concrete_query(q, rng):
    def f(n):
        k = n["k"]
        if k == "keyed":
            return X.KEYED(rng.choice(X.WIRE_KEYS))
        if k == "tagged":
            return X.TAGGED(rng.choice(X.WIRE_KEYS), rng.choice(X.WIRE_TAG_VALUES))
        if k == "ifeature":
            return {"k": "ifeature", "id": copy.deepcopy(rng.choice(X.IDS_WIRE))["id"]}
        if k == "ipoint":
            return {"k": "ipoint", "pts": [list(rng.choice(X.POINTS_E7))]}
        if k == "ipolyline":
            return {"k": "ipolyline", "pts": rng.choice(X.PATHS)}
        if k == "impoly":
            return {"k": "impoly", "polys": rng.choice(X.AREAS)}
        if k == "icap":
            return {"k": "icap", "pts": [list(rng.choice(X.POINTS_E7[:5]))], "c": rng.choice(RADII)}
        return n
    return X.map_query(q, f)


def positioned(t, pos):
    t = copy.deepcopy(t)
    t["b"], t["e"], t["n"] = POS[pos]
    return t


def from_wire_line(l, rng):
    """Concrete trees for one object enumerated by ExprWire.tla (all classes of the literal kind it names)."""
    t = l["t"]
    k = t["k"]
    if k == "query":
        return [positioned(X.Q(concrete_query(t["q"], rng)), t["pos"])]
    if k == "call":
        return [positioned(X.CALL(positioned(X.S("f"), "small"), [positioned(a, "small")], t["pipe"]), t["pos"])
                for a in leaf_classes(t["args"][0]["k"])]
    if k == "lambda":
        return [positioned(X.LAM(["_x_140213"], positioned(b, "max31")), t["pos"]) for b in leaf_classes(t["body"]["k"])]
    return [positioned(c, t["pos"]) for c in leaf_classes(k)]


def run(ctx):
    rng = random.Random(ctx.seed)
    qsize = ctx.pick(3, 5)
    r_tree, r_wire, r_fixed, r_out = X.tlc_parallel(ctx, [
        ("ExprTree", dict(cfg_text=TREE_CFG % ctx.pick(5, 6), timeout=ctx.pick(300, 2400), heap="6g")),
        ("ExprWire", dict(cfg_text=WIRE_CFG % (qsize, "TRUE", "FALSE", "CONSTRAINT Emit"), timeout=600)),
        # design level: once the spatial Equal methods accept values, the codec holds on the whole domain
        ("ExprWire", dict(cfg_text=WIRE_CFG % (qsize, "TRUE", "TRUE", "INVARIANT WireOK"), timeout=600, count=False)),
        # outside the domain: what the model says about nil, non-string tag values, undecodable queries, 33-bit positions
        ("ExprWire", dict(cfg_text=WIRE_CFG % (2, "FALSE", "TRUE", "CONSTRAINT Emit"), timeout=600, count=False)),
    ])
    shapes = [l for l in r_tree.lines.get("CASE", []) if l["what"] == "shape"]
    wire = r_wire.lines.get("CASE", [])
    if len(shapes) < 500 or len(wire) < 100:
        raise Exception("enumeration too small: %d shapes, %d wire objects" % (len(shapes), len(wire)))
    ctx.extra_cov["model_rejects_as_is"] = sum(1 for l in wire if not l["pred"])
    binary = ctx.go_build("vh-expr")
    queries = [concrete_query(l["t"]["q"], rng) for l in wire if l["t"]["k"] == "query" and l["pred"]]
    cases = []

    def add(t, origin):
        cases.append({"id": len(cases), "t": t, "origin": origin})

    # 1. every object of the abstract codec model, every class of the kind it names
    for l in wire:
        for t in from_wire_line(l, rng):
            add(t, "wire-model")
    n_model = len(cases)
    # 2. every shape of calls / pipelines / lambdas with literals of every kind, positions and names on every node
    for l in shapes:
        for k in range(ctx.pick(2, 4)):
            t = X.concretise_wire(l["t"], rng, queries)
            add(X.annotate(t, rng, "distinct" if k % 2 == 0 else "extreme"), "shape+classes")
    # 3. every class of every kind in every context
    for kind in ("sym", "int", "float", "bool", "str", "id", "tag", "point", "path", "area", "route", "coll"):
        for leaf in leaf_classes(kind):
            for t in X.contexts(leaf):
                add(X.annotate(t, rng, "distinct"), "class-in-context")
    # every cap radius class on its own (so that which radii survive does not depend on the seed)
    for r in RADII:
        for pt in X.POINTS_E7[:3]:
            add(positioned(X.Q({"k": "icap", "pts": [list(pt)], "c": r}), "small"), "cap-radius")
    # 4. every query tree inside a call, too
    for q in queries:
        add(X.annotate(X.CALL(X.S("find"), [X.Q(copy.deepcopy(q))]), rng, "distinct"), "query-in-call")
    for c in cases:
        ctx.distinct_cases.add(canon(c["t"]))
    ctx.sample({"tree": cases[3]["t"]})
    ctx.sample({"tree": cases[n_model + 5]["t"]})
    ctx.sample({"tree": cases[-1]["t"]})
    send = [{"id": c["id"], "t": c["t"]} for c in cases]
    vs = X.run_stepping_over_known(ctx, binary, "wire", send, "C19")
    passing = [send[v["id"]] for v in vs if v.get("ok")]

    def corrupt(t):
        t["e"] = t.get("e", 0) + 1
        return t
    X.binding_selftest(ctx, binary, "wire", passing[::max(1, len(passing) // 40)], corrupt)
    ctx.extra_cov["cases_from_wire_model"] = n_model
    # outside the domain: observations only
    outside = []
    for l in r_out.lines.get("CASE", []):
        if l["pred"]:
            continue
        t = l["t"]
        if t["k"] in ("call", "lambda"):
            continue
        if t["k"] == "query":
            outside.append({"id": len(outside), "t": positioned(X.Q(concrete_query(t["q"], rng)), "small"), "why": canon(t["q"])})
        elif t["k"] in ("nil", "tagint"):
            outside.append({"id": len(outside), "t": positioned({"k": t["k"]}, t["pos"] if t["pos"] != "over31" else "small"), "why": t["k"]})
        elif t["pos"] == "over31":
            outside.append({"id": len(outside), "t": positioned(leaf_classes(t["k"])[0], "over31"), "why": "position over 2^31"})
    if outside:
        vs = ctx.run_cases(binary, "wire-observe", [{"id": c["id"], "t": c["t"]} for c in outside], name="outside")
        obs = {}
        for v in vs:
            key = outside[v["id"]]["why"] if len(outside[v["id"]]["why"]) < 40 else "query containing an undecodable kind"
            what = (v.get("obs") or {}).get("check", v.get("key", "?"))
            obs.setdefault(key, {})
            obs[key][what] = obs[key].get(what, 0) + 1
        ctx.extra_cov["outside_domain_observations"] = obs
    return ctx.finish(
        "exploration",
        rule="TLC enumerates (ExprWire.tla) every literal kind x position class, every query tree up to MaxQSize nodes over the "
             "decodable query kinds, and calls/pipelines/lambdas over every literal kind; (ExprTree.tla) every call/pipeline/"
             "lambda shape up to MaxSize nodes. Each is concretised with every class of its kind (model objects, contexts) or "
             "with seeded classes (shapes), with distinct or extreme begin/end/name on EVERY node, and executed: ToProto; the "
             "message equals the one a client would write; ExpressionFromProto; independent deep comparison incl. positions; "
             "b6 Equal both ways; second ToProto proto.Equal to the first; second FromProto; the client's message decodes to "
             "the same tree. distinct = distinct concrete trees.",
        assumptions=[
            "domain = what a client can send and the server decodes (see META.note); positions fit the 32-bit wire fields",
            "geometry literals are on the E7 grid the wire format carries; s2 is trusted for loop orientation/nesting, so the "
            "client-message comparison skips area payloads and the derived polyline length",
            "cap queries are compared by b6's Equal and by the second-pass protobuf only (their fields are private)",
            "NaN is excluded (NaN != NaN makes Equal false without any loss)",
        ],
        exhaustive=True)
