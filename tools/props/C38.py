"""C38 -- callers' feature values are isolated from the world  (MutableWorld family; see tools/mworld.py)"""
import mworld

META = {
    "engine": "mworld",
    "level": "model_checking",
    "text": "MutateCallerCopy is a stutter step of MutableWorld.tla; on the real worlds, after every reachable history of scenarios 2-3 the harness changes every value it had passed to AddFeature (tags in place, path IDs of areas, relation members, collection keys/values) and clones of them, and the world's complete observation must not change; clones must be independent of their originals.",
    "note": 'Small scope (<= 13 features on a convex polygon, 3 tag keys, 2 values); self-crossing loops are never generated (validity unspecified in the vendored s2). Trusted: TLC, harness/obs, vh-world.',
    "technique": "TLA+ spec (MutableWorld) model-checked by TLC; exported state graph replayed on the real worlds",
}


def run(ctx):
    return mworld.run_family(
        ctx, "C38", scenarios=[2, 3, 8], impls=['basicmutable', 'overlay-basic', 'overlay-mutable', 'overlay-empty', 'overlay-compact'],
        sections=['mutate'],
        select=lambda e: e['ev']['op'] == 'mutate',
        end_walks=((300, 7, 'mutate'), (5000, 10, 'mutate')),
        meta_rule='every MutateCallerCopy transition executed via its shortest prefix on 4 world constructions + random walks',
        assumptions=[],
        focused=(100, 600))
