"""C08 -- compact posting lists decode to exactly the IDs encoded and support Advance to any feature ID.
Spec: SortedIter.tla with one token and the query all(t) (MCSortedIter.tla: PostingAll*/PostingDense* configs,
TraceSortedIter.tla); harness: cmd/vh-iter (kind compact: PostingList.Fill / Marshal / NewIterator)."""
import os

from vlib import Inconclusive
from props import iterlib, itertrace
from props.iterlib import (Model, Collector, table, TWO63, MAXU, NS_A, NS_D, NS_M, NS_N, NS_W, NS_Z,
                           POINT, PATH, AREA, RELATION, COLLECTION)

META = {
    "engine": "iter",
    "level": "model_checking",
    "text": "A posting list is the one-token instance of SortedIter.tla (state: the set of ranked IDs and the cursor; "
            "actions Next, Advance(k)); TLC checks it exhaustively for every subset of 8 (quick) / 10 (thorough) ranked "
            "IDs and for 22-ID lists with up to 1 / 2 holes, and exports the complete cursor graph of every list. The "
            "spec does not constrain bytes; the harness's concretisation tables (rank -> type, namespace, 64-bit "
            "value) are chosen to force byte layouts of the real encoder: 1..10-byte varints, blocks that end exactly "
            "at 64 bytes, one-byte padding, namespace switches at block ends, values 0 and 2^64-1, targets in "
            "namespaces the list does not contain. Every list is encoded by the real PostingList.Fill/Marshal and "
            "EVERY sequence of Next/Advance(k) up to depth 3 (2 for the long lists), plus Next-to-the-end after every "
            "first call, is executed on compact.NewIterator and judged against the graph. Random lists of up to "
            "thousands of IDs with random calls are recorded and judged by TLC (trace validation).",
    "note": "Exhaustive part: lists of <= 10 IDs (all subsets) and 20-22 IDs (few holes), 9-11 hand-made layout tables; "
            "thousands of IDs only in the random part. Use after a call returned false is unspecified and never "
            "generated. Advance targets use namespaces the NamespaceTable knows (NamespaceTable.Encode panics "
            "otherwise; the world-wide table contains every namespace of the world). Trusted: TLC, the Go adapter.",
    "technique": "TLA+ spec (SortedIter, one token) + TLC exhaustive; cursor graphs replayed on compact.NewIterator "
                 "over lists encoded by the real encoder with layout-forcing tables (binding A) + TLC trace "
                 "validation of recorded random lists (binding B)",
}

STEP56 = 1 << 56


def profiles_small(n):
    """Tables for n ranks; ranks 1..n-2 may be stored, 0 and n-1 are only ever Advance targets."""
    p = {}
    # one block, one-byte varints
    p["tiny"] = table([(POINT, NS_N, r + 1) for r in range(n)])
    # nine-byte deltas: 7 IDs = 63 bytes, the 8th does not fit: one byte of padding, then a new block
    p["delta9"] = table([(PATH, NS_W, 3 + r * STEP56) for r in range(n)])
    # first ID one byte, then nine-byte deltas: 1 + 7*9 = 64, a block that ends exactly at its boundary
    p["exact64"] = table([(POINT, NS_A, 0)] + [(POINT, NS_A, 5 + (r - 1) * STEP56) for r in range(1, n)])
    # ten-byte absolute values (>= 2^63) + nine-byte deltas: 10 + 6*9 = 64; the last rank is 2^64-1
    p["abs10"] = table([(AREA, NS_W, TWO63 + r * STEP56) for r in range(n - 1)] + [(AREA, NS_W, MAXU)])
    # the top of the value range: ten-byte absolute value, one-byte deltas, up to 2^64-1
    p["top"] = table([(RELATION, NS_Z, MAXU - (n - 1 - r)) for r in range(n)])
    # deltas at the varint width boundaries 2^7k - 1 / 2^7k
    vals, v = [], 0
    for r in range(n):
        vals.append(v)
        k = 7 * (r // 2 + 1)
        v += (1 << k) - 1 if r % 2 == 0 else (1 << k)
    p["widths"] = table([(PATH, NS_D, x) for x in vals])
    # (type, namespace) groups, several of them singletons: namespace switches, targets in absent namespaces
    cyc = [(POINT, NS_A, 0), (POINT, NS_A, 70000), (POINT, NS_A, TWO63), (POINT, NS_M, 9), (PATH, NS_A, 1),
           (PATH, NS_A, 1 << 40), (PATH, NS_Z, MAXU), (AREA, NS_M, 128), (AREA, NS_M, 129), (RELATION, NS_A, 16384),
           (RELATION, NS_D, 0), (COLLECTION, NS_D, 12)]
    p["groups"] = table(cyc[:n - 1] + [cyc[-1]] if n <= len(cyc) else cyc)
    # every rank its own (type, namespace): every Advance crosses a namespace, every block holds one ID
    own = [(t, ns, 1 << (5 * i)) for i, (t, ns) in enumerate(
        [(t, ns) for t in (POINT, PATH, AREA, RELATION) for ns in (NS_A, NS_M, NS_Z)])]
    p["singletons"] = table(own[:n])
    # nine-byte deltas whose running sum crosses 2^63 in the middle of the list (unsigned vs signed comparisons)
    p["cross63"] = table([(RELATION, NS_M, 3 + r * ((1 << 60) + (1 << 58))) for r in range(n)])
    # one-byte first value + six nine-byte deltas = 55 bytes, then a delta of exactly 2^63 (a ten-byte varint whose ninth
    # byte is 0x80): it does not fit into the nine bytes left and has to start a new block
    base = [(POINT, NS_A, 1)] + [(POINT, NS_A, 5 + (r - 1) * STEP56) for r in range(1, 8)]
    jump = base[-1][2] + TWO63
    p["jump63-at-55"] = table((base + [(POINT, NS_A, jump + (r - 8) * 3) for r in range(8, n)])[:n])
    if n >= 12:
        # ranks 1..8 fill a block exactly (1 + 7*9 = 64), then the namespace changes at the block boundary
        p["switch-at-exact-end"] = table([(POINT, NS_A, 0)] + [(POINT, NS_A, 5 + (r - 1) * STEP56) for r in range(1, 9)] +
                                         [(POINT, NS_M, 1 + (r - 9) * STEP56) for r in range(9, n)])
        # ranks 1..7: 10 + 6*9 = 64 exactly, then a new type
        # rank 2 is alone in its namespace and has a huge value; the namespace after it spans two blocks
        # (10 + 6*9 = 64 bytes: seven IDs fill a block, the eighth starts a new one): Advance(2) on lists without rank 2
        p["absent-then-two-blocks"] = table(
            [(POINT, NS_A, 0), (POINT, NS_A, 7), (POINT, NS_D, MAXU)] +
            [(POINT, NS_M, TWO63 + 1 + (r - 3) * STEP56) for r in range(3, n - 1)] + [(PATH, NS_A, 5)])
        p["abs10-then-type"] = table([(PATH, NS_W, TWO63 - 1)] + [(PATH, NS_W, TWO63 + r * STEP56) for r in range(1, 8)] +
                                     [(AREA, NS_W, 7 + (r - 8) * 300) for r in range(8, n)])
    return p


def profiles_long(n):
    """Tables for the 22-ID lists (n = 24 ranks)."""
    p = {}
    p["delta9"] = table([(PATH, NS_W, 3 + r * STEP56) for r in range(n)])                    # 7 per block, padded
    p["abs10"] = table([(AREA, NS_W, TWO63 + r * STEP56) for r in range(n - 1)] + [(AREA, NS_W, MAXU)])  # 7 per block, exact
    p["exact64"] = table([(POINT, NS_A, 0)] + [(POINT, NS_A, 5 + (r - 1) * STEP56) for r in range(1, n)])
    # three groups: exact (1+7*9), exact (10+6*9), padded; below-all and above-all targets in groups of their own
    p["exact-mix"] = table([(POINT, NS_A, 0)] + [(POINT, NS_A, 5 + (r - 1) * STEP56) for r in range(1, 9)] +
                           [(POINT, NS_M, TWO63 + (r - 9) * STEP56) for r in range(9, 16)] +
                           [(PATH, NS_M, 3 + (r - 16) * STEP56) for r in range(16, n - 1)] + [(COLLECTION, NS_Z, MAXU)])
    # nine-byte deltas, values cross 2^63 in the second block
    p["cross63"] = table([(RELATION, NS_M, 3 + r * ((1 << 59) + (1 << 57))) for r in range(n)])
    # 2-byte deltas: everything in one block
    p["small"] = table([(RELATION, NS_D, 1000 * (r + 1)) for r in range(n)])
    # eight groups, some singletons, mixed widths
    g = []
    layout = [(POINT, NS_A, 3), (POINT, NS_M, 1), (PATH, NS_A, 4), (PATH, NS_Z, 1), (AREA, NS_A, 5), (AREA, NS_M, 1),
              (RELATION, NS_D, 6), (COLLECTION, NS_D, 3)]
    for t, ns, m in layout:
        for j in range(m):
            g.append((t, ns, (j * STEP56 + j) if (t + m) % 2 else (100 + 130 * j)))
    p["groups"] = table(g[:n])
    # ranks 4 and 22 are alone in their namespaces and have huge values; the namespace after rank 4 spans three
    # blocks: Advance(4) on the lists that lack rank 4 has to stop at the first ID of that namespace
    p["absent-then-long"] = table([(POINT, NS_A, 0)] + [(POINT, NS_A, 5 + r * STEP56) for r in range(1, 4)] +
                                  [(POINT, NS_D, MAXU - 1)] +
                                  [(POINT, NS_M, 3 + (r - 5) * STEP56) for r in range(5, 22)] +
                                  [(PATH, NS_A, 1 << 62), (PATH, NS_M, 5)] + [(PATH, NS_M, 6 + r) for r in range(n - 24)])
    return p


def posting_walk(ctx, cfg, profs_of, depth, tag, col):
    r = ctx.tlc("MCSortedIter", cfg, timeout=1500)
    model = Model(r)
    mpath = model.write(os.path.join(ctx.work, "model-%s.json" % tag))
    binary = ctx.go_build("vh-iter")
    ranks = set()
    for rows in model.graph.values():
        for row in rows:
            ranks.add(row[2])
            ranks.add(row[0])
    n = max(ranks) + 1
    profiles = profs_of(n)
    cases = []
    for ik in sorted(model.indices):
        for pi, pname in enumerate(sorted(profiles)):
            cases.append({"id": len(cases), "kind": "compact", "profile": pname, "table": profiles[pname],
                          "variant": {"keep_empty": True, "extra_ns": (pi + iterlib.hash_str(ik)) % 2 == 0},
                          "idx": model.indices[ik], "model_file": mpath, "dens": model.dens[ik], "depth": depth,
                          "long": True, "after_fail": True, "bare": iterlib.pick_bare(ik + pname, ctx.seed, 3)})
    ctx.note("%s: %d lists x %d layout tables (%s), %d cursor-graph edges; depth %d" % (
        tag, len(model.indices), len(profiles), ", ".join(sorted(profiles)), model.edges, depth))
    vs = ctx.run_cases(binary, "walk", cases, timeout_ms=300000, name="walk-" + tag)
    col.absorb(vs, cases, model, binary=binary)
    for c in cases:
        ctx.distinct_cases.add((tag, iterlib.canon(c["idx"]), c["profile"]))
    return model, cases, binary


def selftest_walk(ctx, binary, cases, col):
    """The binding is real: falsify one expectation of a case that passed and the adapter must object."""
    passed = sorted(col.passed)
    if not passed:
        ctx.note("self-test skipped: no case passed")
        return
    probe = dict(cases[passed[len(passed) // 2]], id=0, corrupt=1)
    if len(probe.get("dens") or []) > 24:
        probe["only"] = list(range(24))
    pv = ctx.run_cases(binary, "walk", [probe], workers=1, name="selftest", timeout_ms=900000)
    if pv[0].get("ok") or not isinstance(pv[0].get("obs"), list):
        raise Inconclusive("self-test: a falsified expectation was not noticed by the adapter: %r" % (pv[0].get("key"),))
    ctx.note("self-test: falsified expectation rejected (%s)" % pv[0].get("key"))


def run(ctx):
    col = Collector(ctx)
    model, cases, binary = posting_walk(ctx, ctx.pick("PostingAll8.cfg", "PostingAll10.cfg"), profiles_small, 3, "all", col)
    selftest_walk(ctx, binary, cases, col)
    posting_walk(ctx, ctx.pick("PostingDense1.cfg", "PostingDense2.cfg"), profiles_long, 2, "dense", col)
    full = next(c for c in cases if len(c["idx"]["t"]) >= 7 and c["profile"] == "exact64")
    ctx.sample({"list_ranks": full["idx"]["t"], "profile": full["profile"], "table": full["table"]})
    # binding B: random lists (up to thousands of IDs, random layouts) with random calls, judged by TLC
    col.register()
    itertrace.selftest(ctx, "list")
    itertrace.validate(ctx, col, mode="list", runs=ctx.pick(150, 1500), maxkeys=ctx.pick(700, 5000),
                       calls=ctx.pick(25, 60), kinds="compact")
    ctx.evaluations += col.stats.get("sequences", 0)
    ctx.traces_validated += col.stats.get("sequences", 0)
    return ctx.finish(
        "model_checking",
        rule="binding A: every subset of 8 (quick) / 10 (thorough) ranked IDs and every 22-ID list with <= 1 / 2 holes, "
             "under every layout table (one-byte varints; nine-byte deltas with one byte of padding; blocks ending "
             "exactly at 64 bytes; ten-byte values up to 2^64-1; varint width boundaries; (type, namespace) groups "
             "with singletons; one ID per namespace; namespace / type switch at an exactly full block), is encoded "
             "by the real encoder; every sequence of Next / Advance(k) for every rank k (below, between, above the "
             "stored IDs, in absent namespaces) to depth 3 (short lists) / 2 (long lists) plus Next-to-the-end after "
             "every first call is executed on the real iterator and compared with TLC's cursor graph. evaluations = "
             "call sequences executed; distinct = (list, layout table) pairs. binding B: random lists judged by TLC.",
        assumptions=["an iterator is never used after Next/Advance returned false (unspecified)",
                     "Advance targets are feature IDs whose namespace is in the NamespaceTable the iterator was "
                     "created with (the table may contain unused namespaces); namespaces unknown to the table make "
                     "NamespaceTable.Encode panic and are not demanded",
                     "IDs have a valid (non-empty) namespace",
                     "lists are strictly increasing (the encoder's precondition)"],
        exhaustive=True)


def replay(ctx, obj):
    return iterlib.run_replay(ctx, obj)
