"""C05 -- spatial predicates agree with exact geometry (partial: the logical structure over s2 facts).

spec/SpatialPredicates.tla gives, for each (query kind, feature kind), how Query.Matches must combine primitive
geometric facts (point in loop, edge within radius, edges cross, cell contains point).  SpatialPredicatesTables.tla
enumerates every truth table up to a bound (TLC; design properties checked; ROW lines).  The harness realises rows
with concrete geometry on the real code, computes the facts with s2 only, records Matches; every recorded case is
judged by TLC (SpatialPredicatesTrace.tla).
"""
import json
from vlib import canon, Inconclusive

META = {
    "engine": "spatial",
    "level": "exploration",
    "text": "The boolean structure of every spatial predicate (15 query/feature combinations) is specified in TLA+ "
            "over primitive facts; TLC enumerates all truth tables up to 3 parts per dimension and checks the design "
            "properties; the real Query.Matches is run on seeded concrete geometry realising those rows (multipolygons "
            "with 1-3 parts, holes, concave loops, >16-vertex loops) and every recorded (facts, answer) pair is "
            "validated by TLC. Exact spherical geometry itself is not decided: exploration level.",
    "note": "Trusted base: s2 (ContainsPoint, DistanceFromSegment, CrossingSign, cell geometry) and the 60-line fact "
            "computation in the harness. Numeric accuracy is out of scope: scenes with any decision within 4e-9 rad of "
            "flipping are discarded. The documented path-vs-polygon vertex approximation is part of the specification "
            "(how often it differs from the exact answer is reported, not judged). A point counts as 'on' a path only "
            "when it is one of its vertices.",
    "technique": "TLA+ predicate structure (SpatialPredicates) + TLC truth-table enumeration; rows realised on the real "
                 "Query.Matches with s2-computed facts; trace validation (SpatialPredicatesTrace)",
}


def replay(ctx, obj):
    """Re-execute the case of a replay file on the current tree (the adapter judges it)."""
    rep = obj.get("replay") or {}
    case = rep.get("case")
    if not case:
        raise Inconclusive("replay file has no case")
    binary = ctx.go_build("vh-spatial")
    v = ctx.run_cases(binary, "pred", [dict(case)], timeout_ms=120000, name="replay")[0]
    ctx.evaluations += 1
    keys = {e.get("key") for e in ((v.get("obs") or {}).get("events") or []) if e.get("go_bad")}
    if obj.get("key") in keys:
        ctx.fail(obj["key"], obj.get("what", ""), rep)
    return ctx.finish("exploration", rule="replay of one recorded case", exhaustive=False)


def run(ctx):
    r = ctx.tlc("SpatialPredicatesTables", "SpatialPredicatesTables.cfg")
    rows = r.lines.get("ROW", [])
    if len(rows) < 500:
        raise Inconclusive("ROW export too small: %d" % len(rows))
    binary = ctx.go_build("vh-spatial")
    cases = []
    tries = ctx.pick(25, 120)
    extra = ctx.pick(1, 12)
    for row in rows:
        cases.append({"id": len(cases), "seed": ctx.seed, "kind": row["kind"], "m": row["m"], "n": row["n"] or None,
                      "expect": row["expect"], "tries": tries, "extra": extra})
    # extra random scenes per kind
    kinds = sorted({row["kind"] for row in rows})
    for k in kinds:
        for _ in range(ctx.pick(2, 10)):
            cases.append({"id": len(cases), "seed": ctx.seed, "kind": k, "extra": ctx.pick(40, 200)})
    vs = ctx.run_cases(binary, "pred", cases, timeout_ms=120000, name="pred")
    events, owners = [], []
    realised = set()
    for v in vs:
        for k, x in (v.get("stats") or {}).items():
            ctx.extra_cov[k] = ctx.extra_cov.get(k, 0) + x
        if not v.get("obs"):
            ctx.evaluations += 1
            if not v.get("ok"):
                ctx.fail(v.get("key") or "pred-crash", v.get("msg", ""), {"case": cases[v["id"]], "verdict": v})
            continue
        for e in (v["obs"].get("events") or []):
            events.append(e)
            owners.append(cases[v["id"]])
            ctx.evaluations += 1
            realised.add(canon([e["kind"], e["m"], e["n"]]))
            ctx.distinct_cases.add(canon([e["kind"], e["m"], e["n"], e.get("shape", "")]))
    if not events:
        raise Inconclusive("no predicate case was recorded")
    ctx.sample({k: events[0][k] for k in ("kind", "m", "n", "matches")})
    ctx.sample({k: events[len(events) // 2][k] for k in ("kind", "m", "n", "matches")})
    # TLC judges every recorded case
    chunk = 20000
    for a in range(0, len(events), chunk):
        part = events[a:a + chunk]
        text = "".join(json.dumps({"kind": e["kind"], "m": e["m"], "n": e["n"], "matches": e["matches"]},
                                  separators=(",", ":")) + "\n" for e in part)
        t = ctx.tlc("SpatialPredicatesTrace", "SpatialPredicatesTrace.cfg", files={"trace.ndjson": text}, workers=1)
        if t.depth - 1 != len(part):
            raise Inconclusive("SpatialPredicatesTrace read %d of %d cases" % (t.depth - 1, len(part)))
        bad = {b["line"] for b in t.lines.get("BAD", [])}
        for i, e in enumerate(part):
            tlc_bad = (i + 1) in bad
            if e.get("go_bad") and " panic " in str(e.get("key", "")):
                ctx.fail(e["key"], e.get("what", ""), {"case": owners[a + i], "event": e})
                continue
            if tlc_bad != bool(e.get("go_bad")):
                raise Inconclusive("TLC and the adapter disagree on case %d (TLC bad=%s, adapter bad=%s): %s" % (
                    a + i + 1, tlc_bad, e.get("go_bad"), json.dumps(e)[:600]))
            if tlc_bad:
                ctx.fail(e["key"], e.get("what", ""), {"case": owners[a + i], "event": e})
        ctx.traces_validated += len(part)
    # coverage of the truth tables
    want = {canon([row["kind"], row["m"], row["n"]]) for row in rows}
    hit = want & realised
    ctx.extra_cov["truth_table_rows"] = len(want)
    ctx.extra_cov["truth_table_rows_realised_on_impl"] = len(hit)
    per = {}
    for row in rows:
        k = row["kind"]
        per.setdefault(k, [0, 0])
        per[k][1] += 1
        if canon([row["kind"], row["m"], row["n"]]) in hit:
            per[k][0] += 1
    ctx.extra_cov["rows_realised_per_kind"] = {k: "%d/%d" % tuple(v) for k, v in sorted(per.items())}
    ctx.note("truth-table rows realised with concrete geometry: %d of %d (the rest are geometrically impossible, e.g. a "
             "centre inside a hole but outside its shell, a 1-vertex polyline, or were not found by the generator)"
             % (len(hit), len(want)))
    for k, v in per.items():
        if v[0] == 0:
            raise Inconclusive("no truth-table row of kind %s was realised" % k)
    # binding self-test: a flipped answer must be rejected by TLC
    t = dict(cases[0])
    t["mutate"] = "flip-matches"
    v = ctx.run_cases(binary, "pred", [t], name="pred-selftest")[0]
    ev = (v.get("obs") or {}).get("events", [])[:2]
    if not ev:
        raise Inconclusive("binding self-test produced no case")
    text = "".join(json.dumps({"kind": e["kind"], "m": e["m"], "n": e["n"], "matches": e["matches"]}) + "\n" for e in ev)
    s = ctx.tlc("SpatialPredicatesTrace", "SpatialPredicatesTrace.cfg", files={"trace.ndjson": text}, workers=1,
                count=False, quiet=True)
    if 1 not in {b["line"] for b in s.lines.get("BAD", [])}:
        raise Inconclusive("binding self-test failed: TLC accepted a flipped Matches answer")
    ctx.extra_cov["binding_selftest_trace"] = "flipped answer rejected by TLC"
    return ctx.finish(
        "exploration",
        rule="TLC enumerates all truth tables of the 15 predicates (<= 3 parts per dimension; cap-area <= 2 polygons of "
             "<= 2 loops: 1072 rows); for each row the harness builds seeded concrete geometry aiming at it, plus random "
             "scenes per kind; facts are computed with s2 from the geometry the feature reports after a round trip "
             "through a real world; every (facts, Matches) pair is validated by TLC. distinct = distinct (kind, fact "
             "table, loop convexity class) realised.",
        assumptions=["s2 primitives are correct (trusted base); scenes with a decision within 4e-9 rad of flipping are discarded",
                     "a point is on a path only when it equals one of its vertices; otherwise it is farther than the margin",
                     "path-vs-polygon uses the documented vertex-inside approximation",
                     "features are served by ingest.BasicMutableWorld; areas are given as s2 polygons"],
        exhaustive=False,
        trusted_base=["github.com/golang/geo/s2", "harness/cmd/vh-spatial/geom.go + pred.go:facts"])
