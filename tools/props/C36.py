"""C36 -- builds give the same world for any degree of parallelism.  Spec: StaticWorld.tla, scenario 1."""
import sworld

META = {
    "engine": "sworld",
    "level": "model_checking",
    "text": "StaticWorld!ValidSubset is a function of the source alone, so the statement reduces to: for every goroutine "
            "count the built world's observation equals the specification's. TLC enumerates 1080 sources (valid and invalid "
            "features, clockwise paths that must be reversed, areas whose paths are dropped) and each is built as a basic "
            "world and as a compact world with 1, 2, 3, 5, 8 and 16 goroutines; lookup, search, enumeration and reference "
            "queries must equal the spec's for every count (hence each other). The parallel stages are also run under load: 150 "
            "copies of a source in one compact world (every token new to the index and shared by two copies), compared token "
            "by token with the in-memory builder's world.",
    "note": "Schedules are explored by repetition under different goroutine counts, not enumerated; the validator's "
            "order-independence is a design property of the spec (ValidSubset has no order). Reference queries are compared "
            "for basic worlds only (the compact world defines a different chain, see C02). Trusted: TLC, harness/obs.",
    "technique": "TLA+ spec (StaticWorld) enumerated by TLC; every case built with 6 goroutine counts x 2 world kinds",
}


def run(ctx):
    variants = []
    for cores in ([1, 2, 5, 16] if ctx.quick else [1, 2, 3, 5, 8, 16]):
        variants.append({"impl": "basic", "cores": cores})
    # every goroutine of a compact build allocates its own large encode buffers: keep the counts moderate
    for cores in ([1, 2, 5] if ctx.quick else [1, 2, 3, 5, 8]):
        variants.append({"impl": "compact", "cores": cores, "max": (10, 60)})
    # the statement itself, differentially: the same source built with 1 and with N goroutines answers every query
    # identically (incl. reference queries and traversal, which have no specification counterpart for compact worlds)
    allsec = ["lookup", "search", "each", "refs", "areas", "rels", "traverse", "problems"]
    for cores in ([3, 5] if ctx.quick else [2, 3, 5, 6, 7]):
        variants.append({"impl": "pardiff-compact", "cores": cores, "max": (8, 60), "sections": allsec})
    for cores in ([3, 16] if ctx.quick else [2, 3, 7, 16]):
        variants.append({"impl": "pardiff-basic", "cores": cores, "sections": allsec})
    # the parallel stages under load: 150 copies of a (valid, tagged) source in ONE compact world, whose index stage
    # runs on all CPUs; every token's posting list, the enumeration and every lookup must equal the in-memory builder's
    def tagged_and_valid(c):
        n = sum(1 for f in c["src"].values() if f["kind"] != "absent" and any(
            k[0] in "#@" and v not in ("-", "") for k, v in f["tags"].items()))
        return not c["dropped"] and n >= 3
    variants.append({"impl": "bulk-compact", "cores": 4, "max": (4, 16), "sections": ["bulk"], "replicas": 150,
                     "only": tagged_and_valid})
    sections = ["lookup", "search", "each", "problems", "build", "observe", "validity"]
    return sworld.run_static(
        ctx, "C36", 1, variants=variants, sections=sections,
        rule="every source TLC enumerates for scenario 1 built as basic and compact worlds with several goroutine counts; "
             "distinct = (impl, cores, source)",
        max_cases=ctx.pick(120, 1080),
        interesting=lambda c: len(c["dropped"]) > 0 or any(f["kind"] == "area" for f in c["src"].values()))
