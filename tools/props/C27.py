"""C27 -- OSM PBF files read back what was written.

Spec: PBFStream.tla (writer + reader state machine, group size G = 2).  Binding A: every call sequence
TLC enumerates (WriteNode/WriteWay/WriteRelation/Flush, length <= MaxOps) is a STRUCTURE that is
executed on the real osm.Writer / osm.ReadPBFWithOptions with run lengths scaled to the real group size
(8000) and seeded element contents; the block partition the spec predicts is compared with the file
(conformance of the model, reported, not a verdict).  The TLC counterexample to GlobalOrder with two
reader goroutines is replayed on the real reader (adapter pbf-order).
"""
import random
import re

from vlib import Inconclusive, canon

META = {
    "engine": "formats",
    "level": "model_checking",
    "text": "PBFStream.tla models the writer (state, dense delta-coding state reset per group, string table per block, "
            "flush on kind change / full group / Flush) and the block-parallel reader; TLC checks exhaustively for all call "
            "sequences up to MaxOps that what is delivered equals what was written (ids, tags, refs, members/roles, "
            "coordinates within one granularity step), per-goroutine order, exactly-once, and sequential order for one core. "
            "Every enumerated call sequence is then executed on the real writer and reader at the real group size "
            "(a model run of q*G+r elements becomes q*8000+r' elements, r' in {1,2,7999}) with 1..4 cores; every sequence of up to 4 calls is executed (thorough: with each of the three partial sizes, plus a seeded sample of the 5-6 call sequences).",
    "note": "Family R (codec): the weakest fit of the technique. The spec contributes the call/flush/block STRUCTURE and "
            "the oracle (sequence written = sequence delivered); it does not model varints, protobuf or zlib. Byte-level "
            "fidelity for element CONTENT (negative/large/extreme ids, empty/repeated/long strings, +-90/+-180/9-decimal "
            "coordinates) is decided by running the real code on seeded contents, i.e. by exploration. Scaling from G=2 to "
            "8000 assumes the writer treats all groups alike except at the three boundaries 7999/8000/8001. "
            "Trusted: TLC, the Go adapter (pbf.go), protobuf/zlib libraries.",
    "technique": "TLA+ spec (PBFStream) + TLC exhaustive; every call sequence replayed on osm.Writer/ReadPBFWithOptions "
                 "at scaled sizes; TLC counterexample (cross-block order) replayed with a gated callback",
}

E = 8000  # osm.elementsPerGroup
PROFILES = ["plain", "negdec", "large", "strings", "coords", "mixed"]
PARTIALS = {"1": 1, "2": 2, "E-1": E - 1}


def cfg(maxops, cores, invariants):
    return ("SPECIFICATION Spec\nCONSTANTS\n  G = 2\n  MaxOps = %d\n  Cores = %d\n  Gran = 100\n"
            "INVARIANTS %s\nCHECK_DEADLOCK FALSE\n" % (maxops, cores, invariants))


def scale(ops, blocks, partial):
    """Model call sequence (G = 2) -> real calls and the real block partition predicted by the spec."""
    r1 = PARTIALS[partial]
    real_ops = []
    real_blocks = []
    bi = 0
    i = 0
    while i < len(ops):
        k = ops[i]
        if k == "f":
            real_ops.append({"k": "f", "n": 0})
            i += 1
            continue
        j = i
        while j < len(ops) and ops[j] == k:
            j += 1
        length = j - i
        # the spec's blocks of this run
        n = 0
        got = 0
        while got < length:
            b = blocks[bi]
            bi += 1
            if b["k"] != k or b["n"] not in (1, 2):
                raise Inconclusive("cannot scale spec blocks %r for ops %r" % (blocks, ops))
            got += b["n"]
            size = E if b["n"] == 2 else r1
            real_blocks.append({"k": k, "n": size})
            n += size
        if got != length:
            raise Inconclusive("spec blocks %r do not partition ops %r" % (blocks, ops))
        real_ops.append({"k": k, "n": n})
        i = j
    if bi != len(blocks):
        raise Inconclusive("spec blocks %r longer than ops %r" % (blocks, ops))
    return real_ops, real_blocks


def run(ctx):
    rng = random.Random(ctx.seed)
    inv_all = "ContentOK GoroutineOrder NoDuplicates Complete SequentialOrder FileOK"
    r1 = ctx.tlc("PBFStream", cfg_text=cfg(ctx.pick(4, 6), 1, inv_all))
    structures = r1.lines.get("CASE", [])
    if len(structures) < 300:
        raise Inconclusive("too few structures exported by TLC: %d" % len(structures))
    # reader with several goroutines (design properties hold) ...
    ctx.tlc("PBFStream", cfg_text=cfg(ctx.pick(3, 4), 2, "ContentOK GoroutineOrder NoDuplicates Complete FileOK"), quiet=False)
    if not ctx.quick:
        ctx.tlc("PBFStream", cfg_text=cfg(3, 3, "ContentOK GoroutineOrder NoDuplicates Complete FileOK"))
    # ... but global file order does not: the counterexample is a candidate to be replayed on the code
    r3 = ctx.tlc("PBFStream", "PBFStreamOrder.cfg", expect_violation=True, count=False)
    witness_ops = None
    if r3.violated == "GlobalOrder":
        m_ops = re.findall(r'/\\ ops = <<(.*?)>>', r3.out)
        m_arr = re.findall(r'/\\ arrival = <<(.*?)>>', r3.out)
        if m_ops and m_arr:
            witness_ops = [x.strip().strip('"') for x in m_ops[-1].split(",") if x.strip()]
            ctx.note("TLC counterexample to GlobalOrder (2 goroutines): ops=%s arrival=<<%s>>" % ("".join(witness_ops), m_arr[-1]))
    else:
        ctx.note("TLC did not violate GlobalOrder with 2 goroutines (violated=%r)" % r3.violated)

    binary = ctx.go_build("vh-formats")

    # ---- binding A: every structure on the real writer/reader
    cases = []
    full_len = 4        # every structure up to this length is executed (thorough: with all three partial classes)
    budget = ctx.pick(0, 3_000_000)  # elements spent on a seeded sample of the longer structures
    total = 0
    order = list(range(len(structures)))
    rng.shuffle(order)
    skipped = 0
    for si in order:
        s = structures[si]
        ops = s["ops"]
        has_writes = any(k != "f" for k in ops)
        if not has_writes:
            combos = [("1", "plain")]
        elif len(ops) <= full_len and not ctx.quick:
            combos = [(p, rng.choice(PROFILES)) for p in PARTIALS]
        else:
            combos = [("E-1" if rng.random() < 0.08 else rng.choice(["1", "2"]), rng.choice(PROFILES))]
        for partial, profile in combos:
            real_ops, real_blocks = scale(ops, s["blocks"], partial)
            n = sum(o["n"] for o in real_ops)
            if len(ops) > full_len:
                if total + n > budget:
                    skipped += 1
                    continue
                total += n
            cases.append({"id": len(cases), "model": "".join(ops), "partial": partial, "ops": real_ops,
                          "blocks": real_blocks, "profile": profile, "seed": rng.randrange(1 << 31), "cores": [1, 2, 3, 4]})
            ctx.distinct_cases.add(canon(["".join(ops), partial, profile]))
    # duplicate ids (sequential readers only) and a long multi-block file
    for ops in (["n", "n", "n", "w", "w", "r", "r", "r"], ["r", "n", "w", "n"]):
        blocks = []
        for k in ops:
            if blocks and blocks[-1]["k"] == k and blocks[-1]["n"] < 2:
                blocks[-1]["n"] += 1
            else:
                blocks.append({"k": k, "n": 1})
        real_ops, real_blocks = scale(ops, blocks, "2")
        cases.append({"id": len(cases), "model": "".join(ops), "partial": "2", "ops": real_ops, "blocks": real_blocks,
                      "profile": "dupids", "seed": rng.randrange(1 << 31), "cores": [1]})
        ctx.distinct_cases.add(canon(["".join(ops), "2", "dupids"]))
    if skipped:
        ctx.note("%d of the structures longer than %d calls were not executed (element budget); every structure up to %d calls is"
                 % (skipped, full_len, full_len))
    ctx.sample({k: cases[0][k] for k in ("model", "partial", "ops", "blocks", "profile", "cores")})
    ctx.sample({k: cases[len(cases) // 2][k] for k in ("model", "partial", "ops", "blocks", "profile", "cores")})
    vs = ctx.run_cases(binary, "pbf", cases, timeout_ms=120000, name="pbf")
    ctx.absorb(vs, case_of=lambda i: cases[i])
    ctx.traces_validated = len(cases)
    ctx.extra_cov["spec_structures"] = len(structures)
    ctx.extra_cov["spec_structures_executed_on_impl"] = len({c["model"] for c in cases})
    drift = ctx.extra_cov.get("block_partitions_differ_from_spec", 0)
    if drift:
        ctx.note("MODEL DRIFT: in %d cases the file's block partition differs from the partition PBFStream.tla predicts "
                 "(not a verdict on the property; the spec's flush rule no longer describes the writer)" % drift)

    # ---- binding self-test: a corrupted expectation must be reported
    st = ctx.run_cases(binary, "pbf", [{"id": 0, "model": "selftest", "partial": "1", "ops": [{"k": "n", "n": 3}, {"k": "w", "n": 2}],
                                        "blocks": [], "profile": "plain", "seed": 5, "cores": [1, 2], "corrupt": 4}],
                       name="pbf-selftest")
    if st[0].get("ok"):
        raise Inconclusive("binding self-test: corrupted expectation was not reported: %r" % st[0])
    ctx.extra_cov["binding_selftest"] = "corrupted expectation (way id + 1) reported: " + st[0].get("key", "")

    # ---- replay of the TLC counterexample to GlobalOrder on the real reader
    if witness_ops:
        # recompute the spec's partition for the witness ops with a tiny local copy of the flush rule
        blocks = []
        for k in witness_ops:
            if k == "f":
                blocks.append(None)
            elif blocks and blocks[-1] and blocks[-1]["k"] == k and blocks[-1]["n"] < 2:
                blocks[-1]["n"] += 1
            else:
                blocks.append({"k": k, "n": 1})
        blocks = [b for b in blocks if b]
        real_ops, _ = scale(witness_ops, blocks, "2")
        wcases = [{"id": 0, "model": "".join(witness_ops), "ops": real_ops, "cores": 2, "seed": 1, "hold_ms": 3000},
                  {"id": 1, "model": "".join(witness_ops), "ops": real_ops, "cores": 1, "seed": 1, "hold_ms": 200}]
        wv = ctx.run_cases(binary, "pbf-order", wcases, timeout_ms=60000, name="pbf-order")
        if not wv[1].get("ok"):
            raise Inconclusive("order witness control (1 core) failed: %r" % wv[1])
        ctx.evaluations += 2
        ctx.sample({"order_witness": wcases[0], "observed": wv[0].get("obs")})
        if not wv[0].get("ok"):
            ctx.fail(wv[0]["key"], wv[0].get("msg", ""), {"case": wcases[0], "verdict": wv[0]})
        else:
            ctx.note("order witness: the real reader delivered in file order with 2 cores while the first callback was held")

    return ctx.finish(
        "model_checking",
        rule="TLC enumerates every sequence of WriteNode/WriteWay/WriteRelation/Flush calls up to MaxOps (G=2) with the block "
             "partition; each is scaled to the real group size (full model group -> 8000 elements, partial group -> 1, 2 or "
             "7999) and executed on osm.Writer + ReadPBF/ReadPBFWithOptions(Cores 1..4) with seeded contents of one profile "
             "(plain/negdec/large incl. MinInt64..MaxInt64/strings incl. empty, repeated, 300 chars/coords incl. +-90, +-180, "
             "9 decimals, sub-granularity/mixed/dupids). distinct = distinct (call sequence, partial-size class, profile).",
        assumptions=[
            "the writer is given a final Flush (the file is complete); the read callback never fails (C28)",
            "cores > 1: demanded is exactly-once delivery, equal content, and written order within each goroutine's stream; "
            "the statement's 'same order for any number of reader cores' is NOT met across goroutines by design of the reader "
            "(see known finding: emit is called concurrently, one goroutine per block)",
            "coordinates: |read - written| <= 0.5e-7 degrees (half a granularity step of 100 nanodegrees: nearest multiple) + 1e-12 float slack",
            "(kind, ID) pairs are unique in multi-core cases so deliveries can be attributed; duplicate IDs are read with one core",
        ],
        exhaustive=True,
        explanation="exhaustive = every call sequence up to %d calls (TLC model-checks up to %d) was executed on the real code" % (full_len, ctx.pick(4, 6)))


def replay(ctx, obj):
    """Re-run the one case recorded in a replay file."""
    rep = obj.get("replay") or {}
    case = dict(rep.get("case") or {})
    if not case:
        raise Inconclusive("replay file has no case")
    case["id"] = 0
    binary = ctx.go_build("vh-formats")
    adapter = "pbf-order" if "hold_ms" in case else "pbf"
    vs = ctx.run_cases(binary, adapter, [case], timeout_ms=120000, name="replay")
    ctx.absorb(vs, case_of=lambda i: case)
    ctx.sample(case)
    return ctx.finish("exploration", rule="replay of one recorded case on the real writer/reader")
