"""Helpers shared by C40.py and C26.py (family "service"): request catalogues, generation of the MC module for
spec/Service.tla, decoding of TLC's OUTCOME / SERIAL / CASE lines, canonical signatures, case construction."""
import itertools
import json
import os

from vlib import B6

WORLDS = ["w1", "w2"]
INIT_WORLDS = ["w1"]
FEATS = ["f1", "f2", "f3", "c1"]          # ID order: points before collections; f3 and c1 are not in the base world
TAGS = ["k", "m", "n", "p"]     # "p" is a plain key (no "#"): not indexed by tag search
BASE = {"f1": {"p": True, "t": ["m", "n"]}, "f2": {"p": True, "t": ["n"]},
        "f3": {"p": False, "t": []}, "c1": {"p": False, "t": []}}
FIELDS = ["k", "w", "f", "g", "c", "t", "x"]


def R(k, w="-", f="-", g="-", c="-", t="-", x="-"):
    return {"k": k, "w": w, "f": f, "g": g, "c": c, "t": t, "x": x}


IDLE = R("idle")


def req_sig(r):
    k = r["k"]
    if k == "ro":
        return "ro(%s;%s)" % (r["w"], r["c"])
    if k in ("add", "rm", "addpt", "badpt"):
        return "%s(%s;%s,%s)" % (k, r["w"], r["f"], r["t"])
    if k in ("addif", "rmif"):
        return "%s(%s;%s->%s)" % (k, r["w"], r["c"], r["t"])
    if k in ("add2", "merge"):
        return "%s(%s;%s+%s,%s)" % (k, r["w"], r["f"], r["g"], r["t"])
    if k == "awc":
        return "awc(%s;%s:%s,%s)" % (r["w"], r["x"], r["f"], r["t"])
    if k == "del":
        return "del(%s)" % r["w"]
    return k


def sig(reqs):
    return " | ".join(sorted(req_sig(r) for r in reqs if r["k"] != "idle"))


def shape(reqs):
    """Signature of a request multiset up to renaming of worlds, features and tags (numbered by first use; the
    smallest string over all orders of the requests).  Used in failure keys: the same anomaly on w2 instead of w1
    or with the tags swapped is the same finding."""
    reqs = [r for r in reqs if r["k"] != "idle"]
    best = None
    for perm in itertools.permutations(reqs):
        names = {"w": {}, "f": {}, "t": {}}

        def nm(kind, v):
            if v == "-":
                return "-"
            d = names[kind]
            if v not in d:
                d[v] = kind.upper() + str(len(d))
            return d[v]
        parts = []
        for r in perm:
            rr = dict(r)
            rr["w"], rr["x"] = nm("w", r["w"]), nm("w", r["x"])
            rr["c"] = nm("t", r["c"])
            rr["t"] = nm("t", r["t"])
            rr["f"], rr["g"] = nm("f", r["f"]), nm("f", r["g"])
            parts.append(req_sig(rr))
        s = " | ".join(parts)
        if best is None or s < best:
            best = s
    return best or ""


def tla_str(s):
    return '"%s"' % s


def tla_req(r):
    return "[" + ", ".join("%s |-> %s" % (f, tla_str(r[f])) for f in FIELDS) + "]"


def tla_set(xs):
    return "{" + ", ".join(xs) + "}"


def mc_module(name, reqlist, cfgs, emit_serial=True, emit_cases=False):
    """Text of a module extending Service with the catalogue and configurations as definitions."""
    base = "[f \\in {%s} |-> CASE %s]" % (
        ", ".join(tla_str(f) for f in FEATS),
        " [] ".join("f = %s -> [p |-> %s, t |-> %s]" % (tla_str(f), "TRUE" if BASE[f]["p"] else "FALSE",
                                                     tla_set(tla_str(t) for t in BASE[f]["t"])) for f in FEATS))
    lines = ["---- MODULE %s ----" % name, "EXTENDS Service",
             "MCReqList == <<" + ",\n   ".join(tla_req(r) for r in reqlist) + ">>",
             "MCCfgs == " + tla_set("<<" + ", ".join(str(i) for i in g) + ">>" for g in cfgs),
             "MCFeatOrder == <<" + ", ".join(tla_str(f) for f in FEATS) + ">>",
             "MCBase == " + base]
    if emit_serial:
        lines.append("ASSUME EmitSerial")
    if emit_cases:
        lines.append("ASSUME EmitCases")
    lines.append("====")
    return "\n".join(lines) + "\n"


def mc_cfg(nc, serial=False, history=True, invariants=(), properties=(), spec="Spec", view=True, deadlock=True):
    t = ["SPECIFICATION " + spec, "CONSTANTS", "  NC = %d" % nc, "  ReqList <- MCReqList", "  Cfgs <- MCCfgs",
         "  Worlds = {%s}" % ", ".join(tla_str(w) for w in WORLDS),
         "  InitWorlds = {%s}" % ", ".join(tla_str(w) for w in INIT_WORLDS),
         "  FeatOrder <- MCFeatOrder", "  Base <- MCBase",
         "  Serial = %s" % ("TRUE" if serial else "FALSE"), "  History = %s" % ("TRUE" if history else "FALSE")]
    if invariants:
        t.append("INVARIANTS " + " ".join(invariants))
    if properties:
        t.append("PROPERTIES " + " ".join(properties))
    if view:
        t.append("VIEW View")
    if not deadlock:
        t.append("CHECK_DEADLOCK FALSE")
    return "\n".join(t) + "\n"


def canon_final(final):
    """Canonical string of a FinalOf value; must equal vh.Canon of the harness observation."""
    out = {}
    for w in sorted(final):
        v = final[w]
        if not v["e"]:
            out[w] = {"e": False}
        else:
            out[w] = {"e": True, "c": {f: {"p": v["c"][f]["p"], "t": sorted(v["c"][f]["t"])} for f in sorted(v["c"])}}
    return json.dumps(out, sort_keys=True, separators=(",", ":"))


def hooks_present():
    """The gate hook is usable when /repo (or VERIF_REPO) has the verifhook package and the call sites."""
    try:
        if not os.path.isdir(os.path.join(B6, "verifhook")):
            return False
        return ("verifhook.Point(\"service.evaluate.rlocked\")" in open(os.path.join(B6, "grpc/service.go")).read() and
                "verifhook.Point(\"functions.addworld.found\")" in open(os.path.join(B6, "api/functions/change.go")).read())
    except OSError:
        return False


def base_case(reqs, mode, path="grpc"):
    return {"mode": mode, "path": path, "worlds": WORLDS, "init_worlds": INIT_WORLDS, "feats": FEATS, "tags": TAGS,
            "base": BASE, "reqs": reqs, "sig": sig(reqs)}


def tlc(ctx, module, cfg_text, files, timeout=900):
    """ctx.tlc, with an optional result cache (SERVICE_TLC_CACHE=<dir>) used ONLY when trying many mutants of the Go
    code in a row: TLC's output depends on the spec and the configuration list, not on /repo."""
    cache = os.environ.get("SERVICE_TLC_CACHE")
    if not cache:
        return ctx.tlc(module, cfg_text=cfg_text, files=files, timeout=timeout)
    import hashlib
    import pickle
    from vlib import SPEC, TLCRun
    h = hashlib.sha1()
    h.update(open(os.path.join(SPEC, "Service.tla"), "rb").read())
    h.update(cfg_text.encode())
    for k in sorted(files):
        h.update(k.encode() + files[k].encode())
    path = os.path.join(cache, h.hexdigest() + ".pickle")
    if os.path.exists(path):
        d = pickle.load(open(path, "rb"))
        r = TLCRun()
        r.__dict__.update(d)
        ctx.tlc_runs.append(r)
        ctx.states += r.distinct
        ctx.transitions += r.generated
        ctx.checker_cmds.append("tlc -config %s_gen.cfg %s.tla (cached result)" % (module, module))
        print("tlc %s: cached result generated=%d distinct=%d" % (module, r.generated, r.distinct), flush=True)
        return r
    r = ctx.tlc(module, cfg_text=cfg_text, files=files, timeout=timeout)
    os.makedirs(cache, exist_ok=True)
    d = dict(r.__dict__)
    d["out"] = ""
    pickle.dump(d, open(path + ".tmp", "wb"))
    os.replace(path + ".tmp", path)
    return r


def build(ctx):
    tags = "verif,verifhook" if hooks_present() else "verif"
    return ctx.go_build("vh-service", tags=tags), tags != "verif"
