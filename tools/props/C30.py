"""C30 -- shortest-path search finds true shortest distances and routes.

Spec: ShortestPath.tla (Bellman-Ford over hops = the definition; Start/Pop/Relax/Finish = graph.go's
ShortestPathSearch over the segments World.Traverse derives; BuildRoute = PathTo).
Binding A: every network TLC enumerates (and seeded samples TLC explores from a file) is built as a real
basic / basic-mutable / compact world and searched by the real code; distances, reachable set and routes
are judged against TLC's true distances.
Binding B: large seeded random networks are searched by the real code (oracle: the adapter's Bellman-Ford),
and TLC validates a sample of the logged (network, reported distances) pairs against the definition.
"""
import json
import os
import random

from vlib import canon, Inconclusive

META = {
    "engine": "graph",
    "level": "model_checking",
    "text": "ShortestPath.tla defines the true distance as the Bellman-Ford fixpoint over usable hops and models "
            "NewShortestPathSearchFromPoint/ExpandSearch/ExpandSearchTo/BuildRoute step by step over the segments "
            "Traverse derives from the ways; TLC checks algorithm = definition for every tie-break and Traverse order on "
            "all small networks, and EVERY such network is then built as a real world and searched by the real code "
            "(distances, reachable set, routes compared with TLC's values). Large random networks: real search vs "
            "Bellman-Ford, a sample validated by TLC as traces.",
    "note": "Small scope (<= 4 points, <= 4 ways, weights 1..3, limits 1..6) exhaustively, larger networks sampled. "
            "Weights: usability from the shipped Car/Bus/SimpleHighway weights, weight = integer tag per hop. "
            "Points = graph nodes (way ends, shared vertices); interior vertices are not demanded. Closed ways only "
            "counter-clockwise. Trusted: TLC, the Go adapter (its Bellman-Ford is cross-checked against TLC on every "
            "exported case).",
    "technique": "TLA+ spec (ShortestPath) + TLC exhaustive; every exported network replayed on graph.ShortestPathSearch "
                 "over basic, mutable and compact worlds; trace validation of random networks",
}

KINDS = ["res", "res", "res", "res", "res", "res", "one", "one", "one", "foot", "busone", "conn", "none"]


def net_key(c):
    return canon([c["ways"], c["origin"], c["limit"], c["to"], c["profile"]])


def with_names(c, rng, report=False):
    """concrete ids: a seeded permutation of point and way numbers (id order decides Traverse and heap order)"""
    d = {k: c[k] for k in ("n", "ways", "origin", "limit", "to", "profile")}
    for k in ("truth", "nodes"):
        if k in c:
            d[k] = c[k]
    perm = list(range(c["n"]))
    rng.shuffle(perm)
    wperm = list(range(len(c["ways"])))
    rng.shuffle(wperm)
    d["perm"] = perm
    d["wayperm"] = wperm
    if report:
        d["report"] = True
    return d


def random_net(rng, nmin, nmax, small=False):
    n = rng.randint(nmin, nmax)
    nways = rng.randint(max(1, n // 2), n) if not small else rng.randint(2, 6)
    ways = []
    for _ in range(nways):
        ln = rng.choice([2, 2, 2, 3, 3, 4, 5, 6]) if not small else rng.choice([2, 2, 3, 4])
        ln = min(ln, n)
        pts = rng.sample(range(n), ln)
        if small:
            w = rng.randint(1, 3)
        else:
            w = 0 if rng.random() < 0.04 else rng.randint(1, 9)
        ways.append({"pts": pts, "w": w, "kind": rng.choice(KINDS)})
    on = sorted({p for w in ways for p in w["pts"]})
    origin = rng.choice(on)
    limit = rng.choice([3, 5, 8, 12, 20, 40, 1000]) if not small else rng.randint(1, 8)
    to = -1
    if rng.random() < 0.4:
        others = [p for p in on if p != origin]
        if others:
            to = rng.choice(others)
    return {"n": n, "ways": ways, "origin": origin, "limit": limit, "to": to,
            "profile": rng.choice(["car", "car", "bus", "walk"])}


def star_net(rng):
    """A hub with many arms of very different costs, short cuts between arm ends and streets beyond them: the frontier
    holds five and more points at once and points on it are reached again by cheaper routes (decrease-key deep
    inside the heap), which sparse random networks hardly ever do."""
    k = rng.randint(5, 9)
    n = 1 + k + rng.randint(2, 6)
    ways = []
    costs = [rng.choice([1, 2, 5, 10, 20, 30, 40, 50]) for _ in range(k)]
    order = list(range(k))
    rng.shuffle(order)
    for i in order:
        ways.append({"pts": [0, 1 + i], "w": costs[i], "kind": "res"})
    # second, much cheaper streets from the hub to some arm ends (the end is pushed at the dear price and improved while
    # the hub is still being expanded) and short cuts from there to other arm ends
    for a in rng.sample(range(1, 1 + k), rng.randint(1, 3)):
        ways.append({"pts": [0, a], "w": rng.choice([1, 2, 3, 4, 6, 7]), "kind": "res"})
        for b in rng.sample([x for x in range(1, 1 + k) if x != a], rng.randint(1, 2)):
            ways.append({"pts": [a, b], "w": 1, "kind": "res"})
    for _ in range(rng.randint(0, k)):
        a, b = rng.sample(range(1, 1 + k), 2)
        ways.append({"pts": [a, b], "w": rng.choice([1, 1, 2, 3, 5, 8]), "kind": rng.choice(["res", "res", "one"])})
    for p in range(1 + k, n):
        ways.append({"pts": [rng.randint(1, k), p], "w": rng.randint(1, 9), "kind": "res"})
        if rng.random() < 0.5:
            ways.append({"pts": [rng.randint(1, p - 1), p], "w": rng.randint(1, 9), "kind": "res"})
    rng.shuffle(ways)
    return {"n": n, "ways": ways, "origin": 0, "limit": 1000, "to": -1 if rng.random() < 0.7 else rng.randint(1, n - 1),
            "profile": "car"}


def batches(world, subs, size, first_id):
    out = []
    for i in range(0, len(subs), size):
        out.append({"id": first_id + len(out), "world": world, "subs": subs[i:i + size]})
    return out


def run(ctx):
    rng = random.Random(ctx.seed)
    binary = ctx.go_build("vh-graph")

    # ---- 1. the design: algorithm = definition on every small network; export the networks
    cfgs = ctx.pick(["ShortestPath.cfg", "ShortestPathClosed.cfg"],
                    ["ShortestPath.cfg", "ShortestPathClosed.cfg", "ShortestPathProfiles.cfg", "ShortestPathN3.cfg",
                     "ShortestPathN4.cfg", "ShortestPathN4x4.cfg"])
    tlc_cases = {}
    per_cfg = {}
    for cfg in cfgs:
        r = ctx.tlc("ShortestPath", cfg, timeout=2400)
        got = r.lines.get("CASE", [])
        if len(got) < 100:
            raise Inconclusive("case export of %s too small: %d" % (cfg, len(got)))
        per_cfg[cfg] = len(got)
        for c in got:
            tlc_cases.setdefault(net_key(c), c)

    # seeded networks beyond the enumerated families, explored by TLC from a file (all tie-breaks, all orders)
    sampled = [random_net(rng, 4, 8, small=True) for _ in range(ctx.pick(150, 1500))]
    for i, c in enumerate(sampled):
        c["id"] = i
    r = ctx.tlc("ShortestPath", "ShortestPathFile.cfg", timeout=2400,
                files={"cases.ndjson": "".join(json.dumps(c) + "\n" for c in sampled)})
    got = r.lines.get("CASE", [])
    if len(got) != len(sampled):
        raise Inconclusive("TLC explored %d of %d sampled networks" % (len(got), len(sampled)))
    per_cfg["ShortestPathFile.cfg"] = len(got)
    for c in got:
        tlc_cases.setdefault(net_key(c), c)

    # the origin test as the code does it: TLC must find the deviation (a candidate; the verdict comes from the real code)
    if not ctx.quick:
        r = ctx.tlc("ShortestPath", "ShortestPathAsCode.cfg", expect_violation=True, count=False)
        if r.violated == "Correct":
            ctx.note("TLC candidate (ShortestPathAsCode.cfg): with the origin test of NewShortestPathSearchFromPoint "
                     "(IsUseable on a zero-length segment) Correct is violated for an origin on one-way ways only; "
                     "the real code is run on those networks below")
            for c in r.lines.get("CASE", []):
                tlc_cases.setdefault(net_key(c), c)
        else:
            ctx.note("ShortestPathAsCode.cfg: no model-level deviation found (violated=%s)" % r.violated)

    cases = [tlc_cases[k] for k in sorted(tlc_cases)]
    ctx.extra_cov["tlc_cases_per_cfg"] = per_cfg
    for k in tlc_cases:
        ctx.distinct_cases.add(k)

    # binding self-test hook (mutants/C30/RESULTS.md): corrupt one expected distance and expect the check to fail
    if os.environ.get("C30_CORRUPT"):
        for c in cases:
            reach = [p for p in c["nodes"] if p != c["origin"] and 0 <= c["truth"][p] < c["limit"]]
            if c["to"] == -1 and reach and c["profile"] == "car" and all(len(w["pts"]) == 2 and w["kind"] == "res" for w in c["ways"]):
                c["truth"][reach[0]] += 1
                c["trust_truth"] = True
                break

    # ---- 2. every exported network on the real code
    named = []
    for c in cases:
        d = with_names(c, rng)
        if c.get("trust_truth"):
            d["trust_truth"] = True
        named.append(d)
    jobs = batches("basic", named, 150, 0)
    mut = rng.sample(named, len(named) // ctx.pick(4, 3))
    jobs += batches("mutable", mut, 150, len(jobs))
    # a compact build costs ~3 s of CPU and ~600 MB whatever its size: a seeded sample, many networks per world
    comp = rng.sample(named, min(len(named), ctx.pick(1500, 15000)))
    jobs += batches("compact", comp, ctx.pick(500, 300), len(jobs))
    ctx.sample({"world": "basic", "case": named[0]})
    ctx.sample({"world": "compact", "case": comp[len(comp) // 2]})

    # ---- 3. large seeded random networks (oracle: Bellman-Ford in the adapter; TLC validates a sample below)
    nrand = ctx.pick(300, 2500)
    rnd = [with_names(random_net(rng, *ctx.pick((10, 40), (30, 100))) if i % 3 else star_net(rng), rng, report=True)
           for i in range(nrand)]
    rnd += [with_names(star_net(rng), rng, report=True) for _ in range(ctx.pick(500, 4000))]
    nrand = len(rnd)
    for c in rnd:
        ctx.distinct_cases.add(net_key(c))
    rnd_first = len(jobs)
    jobs += batches("basic", rnd, 50, len(jobs))
    rnd_compact_first = len(jobs)
    jobs += batches("compact", rnd[:ctx.pick(50, 800)], ctx.pick(50, 100), len(jobs))
    jobs += batches("mutable", rnd[:ctx.pick(50, 800)], 50, len(jobs))
    ctx.sample({"world": "basic", "case": {k: rnd[0][k] for k in ("n", "ways", "origin", "limit", "to", "profile")}})

    verdicts = ctx.run_cases(binary, "graph", jobs, workers=6, timeout_ms=900000, total_timeout=6000)
    by_id = {j["id"]: j for j in jobs}
    retry = []
    searches = 0
    for v in verdicts:
        job = by_id[v["id"]]
        obs = v.get("obs") if isinstance(v.get("obs"), dict) else None
        if v.get("stats"):
            for k, n in v["stats"].items():
                ctx.extra_cov[k] = ctx.extra_cov.get(k, 0) + n
        if v.get("ok"):
            searches += len(job["subs"])
            continue
        if obs and obs.get("fails"):
            searches += len(job["subs"])
            for f in obs["fails"]:
                sub = job["subs"][f["sub"]] if f["sub"] >= 0 else None
                ctx.fail(f["key"], f["msg"], {"world": job["world"], "case": sub, "obs": f.get("obs")})
        else:
            # the worker died or timed out: isolate the sub-case by running each one in its own world
            retry.append(job)
    if retry:
        singles = []
        for job in retry:
            for sub in job["subs"]:
                singles.append({"id": len(singles), "world": job["world"], "subs": [sub]})
        if len(singles) > 2000:
            raise Inconclusive("%d batches crashed; too many sub-cases to isolate" % len(retry))
        vs = ctx.run_cases(binary, "graph", singles, workers=4, timeout_ms=300000, name="graph-isolate")
        for v in vs:
            searches += 1
            if v.get("ok"):
                continue
            job = singles[v["id"]]
            obs = v.get("obs") if isinstance(v.get("obs"), dict) else None
            if obs and obs.get("fails"):
                for f in obs["fails"]:
                    ctx.fail(f["key"], f["msg"], {"world": job["world"], "case": job["subs"][0], "obs": f.get("obs")})
            else:
                ctx.fail("%s|%s|%s" % (v.get("key"), job["world"], net_key(job["subs"][0])), v.get("msg", ""),
                         {"world": job["world"], "case": job["subs"][0]})
    ctx.evaluations += searches

    # ---- 4. binding B: TLC validates logged (network, reported distances) pairs of the random tier
    traces = []
    go_truth = {}
    okv = {v["id"]: v for v in verdicts}
    want = ctx.pick(12, 120)
    for bi in range(rnd_first, rnd_compact_first):
        v = okv.get(bi)
        if not v or not isinstance(v.get("obs"), dict):
            continue
        failed = {f["sub"] for f in v["obs"].get("fails", [])}
        for si, sub in enumerate(by_id[bi]["subs"]):
            rep = v["obs"].get("reports", {}).get(str(si))
            if rep is None or si in failed or len(traces) >= want:
                continue
            reported = [-1] * sub["n"]
            if sub["to"] == -1:
                for p, d in rep["dist"].items():
                    reported[int(p)] = int(d)
            elif rep.get("to_dist") is not None:
                reported[sub["to"]] = int(rep["to_dist"])
            t = {k: sub[k] for k in ("n", "ways", "origin", "limit", "to", "profile")}
            t["id"] = len(traces)
            t["reported"] = reported
            traces.append(t)
            go_truth[t["id"]] = v["obs"]["truths"][str(si)]
    if len(traces) < want // 2:
        raise Inconclusive("only %d traces recorded from the random tier" % len(traces))
    # self-test: one corrupted trace must be rejected
    bad = None
    for t in traces:
        idx = [p for p, d in enumerate(t["reported"]) if d > 0]
        if idx:
            bad = json.loads(json.dumps(t))
            bad["id"] = -7
            bad["reported"][idx[0]] += 1
            break
    tfile = "".join(json.dumps(t) + "\n" for t in traces + ([bad] if bad else []))
    r = ctx.tlc("ShortestPath", "ShortestPathTrace.cfg", timeout=2400, files={"cases.ndjson": tfile}, xss="256m")
    verdict_of = {t["id"]: t["accepted"] for t in r.lines.get("TRACE", [])}
    if bad is not None and verdict_of.get(-7) is not False:
        raise Inconclusive("trace validation is vacuous: a corrupted trace was not rejected")
    for t in traces:
        if t["id"] not in verdict_of:
            raise Inconclusive("TLC did not judge trace %d" % t["id"])
        if not verdict_of[t["id"]]:
            ctx.fail("trace-rejected|" + net_key(t), "TLC rejects what the real search reported: %s" % json.dumps(t), t)
        else:
            ctx.traces_validated += 1
    for c in r.lines.get("CASE", []):
        if c["id"] in go_truth and c["truth"] != go_truth[c["id"]]:
            raise Inconclusive("the adapter's Bellman-Ford and TLC's TrueDist disagree on trace %d: %s vs %s" % (
                c["id"], go_truth[c["id"]], c["truth"]))
    ctx.sample({"trace": {k: traces[0][k] for k in ("n", "origin", "limit", "to", "profile", "reported")},
                "ways": traces[0]["ways"][:6]})
    ctx.extra_cov["random_networks"] = nrand
    ctx.extra_cov["tlc_networks_on_impl"] = len(cases)
    ctx.extra_cov["worlds"] = {"basic": len(named) + len(rnd), "mutable": len(mut), "compact": len(comp)}

    return ctx.finish(
        "model_checking",
        rule="TLC enumerates every network of the configured families (ways of 2..3 vertices over 3 points, up to 3 "
             "one/two-way and 4 two-way two-point ways over 4 points, triangles as closed ways, every way kind x profile) "
             "with every limit, mode (ExpandSearch / ExpandSearchTo each destination) and checks algorithm = Bellman-Ford "
             "definition for all tie-breaks; every exported network + seeded 4..8 point networks explored by TLC are built "
             "as real worlds and searched by the real code; distinct = distinct (ways, origin, limit, destination, profile); "
             "evaluations = searches executed on the real code (each network on up to three world implementations).",
        assumptions=[
            "a point = a graph node (way end or vertex shared by two ways) or the origin; interior vertices of a way need "
            "not be reported (ComputeAccessibility interpolates them geometrically)",
            "the origin itself need not be reported when no usable way touches it; destination = origin is not judged",
            "the limit is exclusive (`< maxDistance`): a reported point must have true distance < limit",
            "weights are non-negative integers per hop read from a tag; usability and one-way rules are those of the shipped "
            "CarWeights / BusWeights / SimpleHighwayWeights",
            "closed ways are counter-clockwise (builders invert or reject clockwise closed paths); ways do not otherwise "
            "revisit a point; after ExpandSearchTo only the destination is judged (other entries are tentative by design)",
        ],
        exhaustive=True)
