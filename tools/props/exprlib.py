"""Helpers shared by C19 (wire format) and C20 (shell print/parse): literal class tables, concretisation of the
shapes enumerated by spec/ExprTree.tla, contexts, position annotation, known-finding stepping.

Tree schema (harness/cmd/vh-expr/tree.go): every node is {"k": kind, ...}.
"""
import copy
import json
import os
import threading

import vlib

# ------------------------------------------------------------------ constructors

def S(name):
    return {"k": "sym", "c": name}


def CALL(f, args, pipe=False):
    return {"k": "call", "f": f, "args": list(args), "pipe": pipe}


def LAM(params, body):
    return {"k": "lambda", "params": list(params), "body": body}


def STR(lit):
    return {"k": "str", "lit": lit}


def INT(c):
    return {"k": "int", "c": str(c)}


def FLT(c):
    return {"k": "float", "c": str(c)}


def BOOL(b):
    return {"k": "bool", "c": "true" if b else "false"}


def IDL(t, ns, v):
    return {"t": t, "ns": ns, "v": str(v)}


def IDN(t, ns, v):
    return {"k": "id", "id": IDL(t, ns, v)}


def TAG(key, lit):
    return {"k": "tag", "key": key, "lit": lit}


def PT_DEG(lat6, lng6):      # shell: micro-degrees (<= 6 decimals), built with s2.LatLngFromDegrees like the parser does
    return {"k": "point", "c": "deg", "lat": lat6, "lng": lng6}


def PT_E7(lat7, lng7):       # wire: the E7 grid the protobuf carries
    return {"k": "point", "c": "e7", "lat": lat7, "lng": lng7}


def Q(q):
    return {"k": "query", "q": q}


def KEYED(key):
    return {"k": "keyed", "key": key}


def TAGGED(key, lit):
    return {"k": "tagged", "key": key, "lit": lit}


# ------------------------------------------------------------------ class tables

OSM_NODE, OSM_WAY, OSM_REL = "openstreetmap.org/node", "openstreetmap.org/way", "openstreetmap.org/relation"
U64 = [0, 1, 4294967296, 9223372036854775808, 18446744073709551615]

# symbols the lexer accepts (letter first; letters, digits, '-', ':', '_' after)
SYMBOLS = ["x", "f", "find-feature", "a1", "Camel", "with:colon", "mid_score", "trailing-", "all-tags", "to-str"]
PARAMS = ["x", "y", "a", "feature", "p1"]
# keys that lex as TAG_KEY or SYMBOL
TAG_KEYS = ["#a", "@a", "a", "#addr:street", "#a-b_c", "name:en", "#building"]

INTS = ["0", "1", "-1", "42", "2147483647", "-2147483648", "2147483648", "4294967296", "9007199254740993",
        "9223372036854775807", "-9223372036854775808"]
# floats the printer (%.2f) can represent
FLOATS_SHELL = ["0.00", "1.50", "-1.50", "100.25", "-0.01", "0.10", "1000000.00", "12345678.12", "2.00", "-273.15"]
for _c in FLOATS_SHELL:
    assert float("%.2f" % float(_c)) == float(_c), _c
FLOATS_WIRE = FLOATS_SHELL + ["0.1", "1e-7", "3.141592653589793", "1e300", "max", "-max", "denormal", "inf", "-inf", "-0"]

# string literals: (concrete text, escape features the printer's %q applies)
STRINGS_CLEAN = ["", "plain", "with space", "UPPER lower", "é☃ 日本", "'single'", "{[(|&=,:->)]}", "#hash",
                 "/path/1", "123", "-5", "1.5", "a;b", "\U0001F600", "51.5, -0.1", "a -> b"]
STRINGS_ESCAPED = ["quo\"te", "\"", "end\"", "back\\slash", "trailing\\", "\\\"", "tab\there", "nl\nhere", "nul\x00",
                   "sep ", "bell\x07\"", "\\n"]

# tag values that lex as a SYMBOL, or that the printer quotes (a later character is not a symbol rune) without escapes
TAG_VALUES_CLEAN = ["yes", "cafe", "Camel", "primary_link", "a1", "x y", "café", "a.b", "with:colon", "semi;colon", "a/b"]
TAG_VALUES_OTHER = ["", "30", "5", "-1", "1st", "_x", ":x", " ", "é", "50 mph", "a\"b", "a\\b", "a\nb", "3.5", "\""]

IDS_SHELL = [
    IDN("point", OSM_NODE, 3501612811), IDN("path", OSM_WAY, 140633010), IDN("area", OSM_WAY, 427900370),
    IDN("relation", OSM_REL, 7), IDN("area", OSM_REL, 7), IDN("point", OSM_WAY, 5), IDN("path", OSM_NODE, 5),
    IDN("relation", OSM_WAY, 9), IDN("point", "ordnancesurvey.co.uk/uprn", 116000008), IDN("path", "ordnancesurvey.co.uk/uprn", 3),
    {"k": "id", "id": IDL("codepoint", "", "N1C 4AB")}, {"k": "id", "id": IDL("codepoint", "", "E2 8HD")},
    {"k": "id", "id": IDL("codepoint", "", "SW1A1AA")}, {"k": "id", "id": IDL("ons", "", "2011/E01000953")},
    {"k": "id", "id": IDL("ons", "", "2023/W06000015")},
    IDN("collection", "diagonal.works/test", 0), IDN("expression", "diagonal.works/ns/x", 1),
    IDN("area", "diagonal.works/ns/a.b-c_d/e", 2), IDN("point", "n", 1), IDN("path", "a/b/c/d/e", 4294967296),
] + [IDN(t, "diagonal.works/test", v) for t in ("point", "path", "area", "relation") for v in U64]
IDS_WIRE = IDS_SHELL + [IDN("point", "", 1), IDN("area", "name with space", 1), IDN("path", "ümläut/日", 2),
                        IDN("relation", "a//b", 3), IDN("collection", "x\"y\\z", 4)]

POINTS_DEG = [(51500000, -100000), (0, 0), (90000000, 180000000), (-90000000, -180000000), (51535123, -125789),
              (-33865143, 151209900), (1, -1), (89999999, 179999999), (10, 20)]
POINTS_E7 = [(515000000, -1000000), (0, 0), (900000000, 1800000000), (-900000000, -1800000000), (515351234, -1257891),
             (1, -1), (899999999, 1799999999), (-338651431, 1512099007)]

TRI = [[515000000, -1000000], [515000000, -900000], [515100000, -900000]]
TRI2 = [[516000000, -1000000], [516000000, -900000], [516100000, -900000]]
SQUARE = [[515000000, -1000000], [515000000, -800000], [515200000, -800000], [515200000, -1000000]]
HOLE = [[515050000, -950000], [515050000, -850000], [515150000, -850000], [515150000, -950000]]   # CCW like the shell: s2.PolygonFromLoops nests it
PATHS = [[[515000000, -1000000], [515100000, -1000000]], TRI, [[0, 0], [1, 1]], SQUARE + [SQUARE[0]]]
AREAS = [[[TRI]], [[TRI], [TRI2]], [[SQUARE]], [[SQUARE, HOLE]]]


def route(n):
    return {"k": "route", "id": IDL("point", OSM_NODE, 1),
            "steps": [{"dest": IDL("point", OSM_NODE, i + 2), "via": IDL("path", OSM_WAY, 100 + i), "cost": str(1.5 * (i + 1))}
                      for i in range(n)]}


def features_of(s):
    f = []
    if '"' in s:
        f.append("quote")
    if "\\" in s:
        f.append("backslash")
    return f


# ------------------------------------------------------------------ walking

def children(n):
    if n["k"] == "call":
        return [n["f"]] + n["args"]
    if n["k"] == "lambda":
        return [n["body"]]
    return []


def preorder(n):
    yield n
    for c in children(n):
        yield from preorder(c)


def size(n):
    return sum(1 for _ in preorder(n))


def map_tree(n, f):
    """Rebuild the tree bottom-up: f(node_with_mapped_children) -> node."""
    n = dict(n)
    if n["k"] == "call":
        n["f"] = map_tree(n["f"], f)
        n["args"] = [map_tree(a, f) for a in n["args"]]
    elif n["k"] == "lambda":
        n["body"] = map_tree(n["body"], f)
    return f(n)


def map_query(q, f):
    q = dict(q)
    if "qs" in q:
        q["qs"] = [map_query(c, f) for c in q["qs"]]
    if q.get("q") is not None:
        q["q"] = map_query(q["q"], f)
    return f(q)


def contexts(leaf):
    """The places a literal can stand in: alone, as an argument (first, middle, nested), as a lambda body,
    on either side of a pipeline."""
    return [
        leaf,
        CALL(S("f"), [leaf]),
        CALL(S("f"), [S("x"), leaf, INT(1)]),
        LAM(["x"], leaf),
        CALL(S("g"), [leaf], pipe=True),
        CALL(S("f"), [CALL(S("g"), [leaf])]),
        CALL(S("h"), [S("a"), leaf], pipe=True),
        LAM(["x", "y"], CALL(S("f"), [leaf, S("y")])),
    ]


# ------------------------------------------------------------------ concretisation for the shell (C20)

def clean_query_leaf(q, rng):
    if q["k"] == "keyed":
        return KEYED(rng.choice(TAG_KEYS))
    if q["k"] == "tagged":
        return TAGGED(rng.choice(TAG_KEYS), rng.choice(TAG_VALUES_CLEAN))
    return q


def shell_atom(rng):
    r = rng.random()
    if r < 0.25:
        return INT(rng.choice(INTS))
    if r < 0.45:
        return FLT(rng.choice(FLOATS_SHELL))
    if r < 0.65:
        return STR(rng.choice(STRINGS_CLEAN))
    if r < 0.85:
        return copy.deepcopy(rng.choice(IDS_SHELL))
    return TAG(rng.choice([k for k in TAG_KEYS if k[0] in "#@"]), rng.choice(TAG_VALUES_CLEAN))


def concretise_shell(shape, rng, clean_queries):
    """Replace the placeholders of an ExprTree.tla shape by literals that the unchanged printer/lexer handle
    (the classes that do not are exercised in their own cases, so that they do not mask everything else)."""
    def f(n):
        k = n["k"]
        if k == "sym":
            return S(rng.choice(SYMBOLS))
        if k == "atom":
            return shell_atom(rng)
        if k == "point":
            lat, lng = rng.choice(POINTS_DEG)
            return PT_DEG(lat, lng)
        if k == "tag":
            return TAG(rng.choice(TAG_KEYS), rng.choice(TAG_VALUES_CLEAN))
        if k == "query":
            q = rng.choice(clean_queries) if clean_queries else n["q"]
            return Q(map_query(q, lambda x: clean_query_leaf(x, rng)))
        if k == "lambda":
            ps = rng.sample(PARAMS, len(n["params"]))
            return dict(n, params=ps)
        return n
    return map_tree(shape, f)


# ------------------------------------------------------------------ concretisation for the wire (C19)

WIRE_STRINGS = STRINGS_CLEAN + STRINGS_ESCAPED
WIRE_TAG_VALUES = TAG_VALUES_CLEAN + TAG_VALUES_OTHER
WIRE_KEYS = TAG_KEYS + ["", "key with space", "#ü", "a=b"]


def wire_scalar(rng):
    r = rng.random()
    if r < 0.2:
        return INT(rng.choice(INTS))
    if r < 0.35:
        return FLT(rng.choice(FLOATS_WIRE))
    if r < 0.45:
        return BOOL(rng.random() < 0.5)
    if r < 0.6:
        return STR(rng.choice(WIRE_STRINGS))
    if r < 0.75:
        return copy.deepcopy(rng.choice(IDS_WIRE))
    if r < 0.85:
        return TAG(rng.choice(WIRE_KEYS), rng.choice(WIRE_TAG_VALUES))
    lat, lng = rng.choice(POINTS_E7)
    return PT_E7(lat, lng)


def wire_collection(rng, depth=0):
    n = rng.choice([0, 1, 2, 3])
    items = []
    for i in range(n):
        key = rng.choice([INT(i), STR(rng.choice(WIRE_STRINGS)), copy.deepcopy(rng.choice(IDS_WIRE)), wire_scalar(rng)])
        val = wire_collection(rng, depth + 1) if depth < 1 and rng.random() < 0.2 else wire_scalar(rng)
        items.append([key, val])
    return {"k": "coll", "items": items}


def wire_atom(rng, queries):
    r = rng.random()
    if r < 0.55:
        return wire_scalar(rng)
    if r < 0.65:
        return {"k": "path", "pts": rng.choice(PATHS)}
    if r < 0.75:
        return {"k": "area", "polys": rng.choice(AREAS)}
    if r < 0.8:
        return route(rng.choice([0, 1, 3]))
    if r < 0.9:
        return wire_collection(rng)
    return Q(copy.deepcopy(rng.choice(queries)))


def concretise_wire(shape, rng, queries):
    def f(n):
        k = n["k"]
        if k == "sym":
            return S(rng.choice(SYMBOLS + ["", "_py_140213", "sp ace", "ü"]))
        if k == "atom":
            return wire_atom(rng, queries)
        if k == "point":
            lat, lng = rng.choice(POINTS_E7)
            return PT_E7(lat, lng)
        if k == "tag":
            return TAG(rng.choice(WIRE_KEYS), rng.choice(WIRE_TAG_VALUES))
        if k == "query":
            return Q(copy.deepcopy(rng.choice(queries)))
        if k == "lambda":
            return dict(n, params=["_%s_%d" % (p, 140213 + i) for i, p in enumerate(n["params"])])
        return n
    return map_tree(shape, f)


NAMES = ["", "", "result", "näme 日", "with \"quote\"", "a"]


def annotate(tree, rng, mode):
    """Give every node its own begin/end/name (mode 'distinct'), or extreme values (mode 'extreme')."""
    tree = copy.deepcopy(tree)
    for i, n in enumerate(preorder(tree)):
        if mode == "distinct":
            n["b"], n["e"], n["n"] = 3 * i + 1, 3 * i + 2 + rng.choice([0, 7]), ("n%d" % i if rng.random() < 0.5 else "")
        elif mode == "extreme":
            n["b"] = rng.choice([0, 1, 2147483647, 65536])
            n["e"] = rng.choice([0, 2147483647, 2147483646, 255])
            n["n"] = rng.choice(NAMES)
        else:
            n["b"], n["e"], n["n"] = 0, 0, ""
    return tree


# ------------------------------------------------------------------ running

def known_keys(prop):
    keys = set()
    for path in (vlib.KNOWN, os.path.join(vlib.VERIF, "known", prop + ".jsonl")):
        if os.path.exists(path):
            for line in open(path):
                line = line.strip()
                if line and not line.startswith("#"):
                    e = json.loads(line)
                    if e.get("property") == prop and e.get("kind") == "known":
                        keys.add(e["key"])
    return keys


def run_stepping_over_known(ctx, binary, adapter, cases, prop, timeout_ms=20000):
    """Run the cases; a case that fails with a KNOWN key is run again with the known keys stepped over, so that a
    known defect does not hide a different failure of the same case.  Returns the first-round verdicts."""
    vs = ctx.run_cases(binary, adapter, cases, timeout_ms=timeout_ms)
    ctx.absorb(vs, case_of=lambda i: cases[i])
    known = known_keys(prop)
    again = [dict(cases[v["id"]], ignore=sorted(known)) for v in vs if not v.get("ok") and v.get("key") in known]
    if again:
        remap = {}
        for j, c in enumerate(again):
            remap[j] = c["id"]
            c["id"] = j
        vs2 = ctx.run_cases(binary, adapter, again, timeout_ms=timeout_ms, name=adapter + "-again")
        n_new = 0
        for v in vs2:
            for k, n in (v.get("stats") or {}).items():
                if k in ("nodes_span_checked", "whitespace_variants", "ignored_known_failures"):
                    ctx.extra_cov[k] = ctx.extra_cov.get(k, 0) + n
            if not v.get("ok"):
                n_new += 1
                ctx.fail(v.get("key") or "case", v.get("msg", ""), {"verdict": v, "case": cases[remap[v["id"]]]})
        ctx.extra_cov["cases_rerun_past_known_findings"] = len(again)
        ctx.extra_cov["failures_found_behind_known_findings"] = n_new
    return vs


def tlc_parallel(ctx, jobs):
    """jobs: list of (module, kwargs).  Runs ctx.tlc for each in its own spec directory, concurrently."""
    dirs = [ctx.specdir() for _ in jobs]
    out = [None] * len(jobs)
    err = [None] * len(jobs)

    def work(i):
        mod, kw = jobs[i]
        try:
            out[i] = ctx.tlc(mod, sdir=dirs[i], **kw)
        except BaseException as e:    # re-raised in the caller's thread
            err[i] = e
    ts = [threading.Thread(target=work, args=(i,)) for i in range(len(jobs))]
    for t in ts:
        t.start()
    for t in ts:
        t.join()
    for e in err:
        if e is not None:
            raise e
    return out


def binding_selftest(ctx, binary, adapter, ok_cases, corrupt):
    """Demonstrate that the expectation carried by a case is really compared with what the code does: the same
    passing cases with a corrupted expectation must all be rejected."""
    st = []
    for i, c in enumerate(ok_cases[:40]):
        d = {k: v for k, v in c.items() if k not in ("ignore", "pred", "back")}
        d.update(id=i, expect=corrupt(copy.deepcopy(c["t"])))
        if "ws" in d:
            d["ws"] = []
        st.append(d)
    if not st:
        raise vlib.Inconclusive("binding self-test: no passing case to corrupt")
    res = ctx.run_cases(binary, adapter, st, name=adapter + "-selftest")
    accepted = [r for r in res if r.get("ok") or r.get("key") != "selftest-expectation"]
    if accepted:
        raise vlib.Inconclusive("binding self-test: %d corrupted expectations were not rejected: %s" % (len(accepted), accepted[0]))
    ctx.extra_cov["binding_selftest_corrupted_expectations_rejected"] = len(res)
