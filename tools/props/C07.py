"""C07 -- AVL tree index stays a balanced sorted set across any edit history; iterators survive edits.

Spec: TreeSet.tla (+ TreeSetTrace.tla).  Binding A: product exploration of (spec graph x concrete tree shapes and
iterator cursors) on the real search.TreeIndex.  Binding B: seeded long histories recorded from the real code and
validated by TLC against the same spec."""
import json
import os

from vlib import canon, Inconclusive

META = {
    "engine": "tree",
    "level": "model_checking",
    "text": "TreeSet.tla (sets per token + iterator positions, one action per TreeIndex/Iterator call) is model-checked "
            "exhaustively, including the four clauses of the statement written independently over history variables. "
            "The complete transition graph TLC generates is then explored IN PRODUCT with the real search.TreeIndex: "
            "breadth first over (spec state, concrete AVL shape with balance factors, iterator cursors incl. cursors on "
            "deleted nodes), every spec-enabled call applied to every reachable concrete state; after each call the "
            "result, the in-order contents and the AVL invariants are compared with the spec. Long seeded histories on "
            "64 values are recorded from the real code and accepted or rejected by TLC (trace validation).",
    "note": "Small scope for the exhaustive part: 8 values/1 iterator and 4 values/2 iterators (quick), 9 values/1 "
            "iterator and 6 values/2 iterators (thorough), 3 tokens x 2 values for the token level (trees of 12+ nodes, "
            "where a deletion rotates at two levels, are only reached by the random histories). Iterator semantics is the deterministic rule of DESIGN.md A.2 "
            "(least element of the current set beyond the last one returned), which implies the statement. Trusted: "
            "TLC, the read-only dump in search/export_verif.go, the Go adapter.",
    "technique": "TLA+ spec (TreeSet) + TLC exhaustive; product BFS of the exported transition graph x concrete AVL "
                 "states on search.TreeIndex; TLC trace validation of recorded random histories",
}


def build_graph(edges, path, corrupt=None):
    """Number the spec states, sort the edges canonically (TLC prints them in a nondeterministic order with several
    workers) and write the graph file the Go walker loads.  corrupt: index of a next/advance edge whose expected
    value is changed (self-test of the binding)."""
    ids = {}
    states = []

    def sid(s):
        k = canon(s)
        if k not in ids:
            ids[k] = len(states)
            states.append(s)
        return ids[k]

    rows = sorted(((canon(e["from"]), canon(e["ev"]), e) for e in edges), key=lambda r: (r[0], r[1]))
    init = None
    out = []
    seen = set()
    moves = 0
    for kf, ke, e in rows:
        if (kf, ke) in seen:
            continue
        seen.add((kf, ke))
        f, t = sid(e["from"]), sid(e["to"])
        ev = e["ev"]
        if ev["op"] in ("next", "advance") and ev.get("ok"):
            if corrupt is not None and moves == corrupt:
                ev = dict(ev)
                ev["v"] = ev["v"] + 1
            moves += 1
        out.append([f, t, ev])
        st = e["from"]
        if init is None and not st["made"] and all(not x for x in st["S"]) and all(i["st"] == "closed" for i in st["it"]):
            init = f
    if init is None:
        raise Inconclusive("initial state not found in the exported graph")
    with open(path, "w") as fh:
        json.dump({"states": states, "init": init, "edges": out}, fh, separators=(",", ":"))
    return states, init, out


NEVER = "never-returns: "


def hazards():
    """Situations in which an iterator call is KNOWN not to return on this tree (known/C07.jsonl): the walker and
    the driver do not make such calls in-process (a fatal stack overflow would end the exploration); they are run
    in isolated worker processes and reported as known findings.  Without a known entry nothing is kept out."""
    out = []
    path = os.path.join(os.path.dirname(os.path.dirname(os.path.dirname(os.path.abspath(__file__)))), "known", "C07.jsonl")
    if os.path.exists(path):
        for line in open(path):
            line = line.strip()
            if line and not line.startswith("#"):
                e = json.loads(line)
                if e.get("kind") == "known" and e.get("key", "").startswith(NEVER):
                    out.append(e["key"][len(NEVER):])
    return out


def situation(calls):
    """The circumstances of the last call of a history, from the history alone (same vocabulary as
    world.situation in vh-tree): call, cursor fresh / live / deleted, list empty / nonempty."""
    S = {}
    cur = {}
    for ev in calls[:-1]:
        op = ev["op"]
        if op == "add":
            for t in ev["ts"]:
                S.setdefault(t, set()).add(ev["k"])
        elif op == "remove":
            for t in ev["ts"]:
                S.setdefault(t, set()).discard(ev["k"])
            for i, c in cur.items():
                if c["tok"] in ev["ts"] and c["st"] == "live" and c["v"] == ev["k"]:
                    c["st"] = "deleted"
        elif op == "begin":
            cur[ev["i"]] = {"tok": ev["t"], "st": "fresh", "v": 0}
        elif op in ("next", "advance") and ev.get("ok"):
            cur[ev["i"]].update(st="live", v=ev["v"])
    last = calls[-1]
    if last["op"] not in ("next", "advance"):
        return last["op"]
    c = cur.get(last["i"], {"tok": 0, "st": "fresh"})
    return "%s/cursor=%s/list=%s" % (last["op"], c["st"], "nonempty" if S.get(c["tok"]) else "empty")


def steps_for(graph, calls):
    """Follow a list of calls through the spec graph: [{ev, to}] or None."""
    states, init, out, succ = graph
    cur = init
    steps = []
    for ev in calls:
        want = canon({k: v for k, v in ev.items() if k in ("op", "k", "ts", "i", "t")})
        nxt = [(t, e) for t, e in succ.get(cur, []) if canon({k: v for k, v in e.items() if k in ("op", "k", "ts", "i", "t")}) == want]
        if not nxt:
            return None
        steps.append({"ev": nxt[0][1], "to": states[nxt[0][0]]})
        cur = nxt[0][0]
    return steps, cur


def product(ctx, binary, cfg, name, timeout_s, max_states=0, corrupt=None, count=True, minimum_edges=100):
    """TLC exports the graph of `cfg`; the walker explores it in product with the real tree.  Returns the verdict."""
    r = ctx.tlc("TreeSet", cfg, count=count)
    edges = r.lines.get("EDGE", [])
    if len(edges) < minimum_edges:
        raise Inconclusive("graph export too small for %s: %d edges" % (cfg, len(edges)))
    gpath = os.path.join(ctx.work, name + ".graph.json")
    states, init, out = build_graph(edges, gpath, corrupt=corrupt)
    journal = os.path.join(ctx.work, name + ".journal")
    case = {"id": 0, "graph": gpath, "journal": journal, "max_states": max_states, "threads": 8,
            "hazards": hazards()}
    vs = ctx.run_cases(binary, "product", [case], workers=1, timeout_ms=timeout_s * 1000, name=name,
                       total_timeout=timeout_s + 60)
    v = vs[0]
    succ = {}
    for f, t, ev in out:
        succ.setdefault(f, []).append((t, ev))
    v["_graph"] = (states, init, out, succ)
    v["_journal"] = journal
    v["_edges"] = len(out)
    return v


def run_isolated(ctx, binary, graph, histories, name):
    """Run histories (lists of calls) as walk cases, each in its own worker process with a short deadline.  A call
    that kills the worker or does not return is reported under its situation."""
    states, init = graph[0], graph[1]
    cases = []
    for calls in histories:
        r = steps_for(graph, calls)
        if r is not None:
            cases.append({"id": len(cases), "init": states[init], "steps": r[0]})
    if not cases:
        return 0
    vs = ctx.run_cases(binary, "walk", cases, timeout_ms=4000, name=name)
    found = 0
    for w in vs:
        ctx.evaluations += 1
        if not w.get("ok"):
            found += 1
            calls = [x["ev"] for x in cases[w["id"]]["steps"]]
            key = w.get("key") or "?"
            if key.startswith("crash:") or key == "timeout":
                key = NEVER + situation(calls)
            ctx.fail(key, "%s [%s]" % (w.get("msg", "")[:1200], " ".join(describe(c) for c in calls)),
                     {"calls": calls, "verdict": w})
    return found


def describe(ev):
    op = ev["op"]
    if op in ("add", "remove"):
        return "%s(%d,%s)" % (op, ev["k"], ev["ts"])
    if op == "begin":
        return "begin(it%d,t%d)" % (ev["i"], ev["t"])
    if op == "next":
        return "next(it%d)" % ev["i"]
    return "advance(it%d,%d)" % (ev["i"], ev["k"])


def isolate(ctx, binary, v, name):
    """The product run died or hung: the journal names the states that were being expanded; run every call enabled
    in them as its own walk case so that the crash/hang is attributed to one call after one history."""
    graph = v["_graph"]
    succ = graph[3]
    histories = []
    try:
        with open(v["_journal"]) as fh:
            for line in fh.read().split("\n"):
                line = line.strip().strip("\x00").strip()
                if line.startswith("["):
                    path = json.loads(line)
                    r = steps_for(graph, path)
                    if r is None:
                        continue
                    for t, ev in succ.get(r[1], []):
                        histories.append(path + [ev])
    except Exception:
        return False
    return run_isolated(ctx, binary, graph, histories, name + "-isolate") > 0


def absorb_product(ctx, binary, v, name, label):
    ctx.evaluations += 1
    st = v.get("stats") or {}
    for k, n in st.items():
        ctx.extra_cov["%s_%s" % (label, k)] = n
    if v.get("ok"):
        if st.get("product_truncated"):
            ctx.note("%s: product exploration stopped at the state bound (%d states); not exhaustive" % (label, st.get("product_states", 0)))
        if st.get("spec_edges_executed", 0) != v["_edges"]:
            ctx.note("%s: %d of %d spec transitions were executed on the implementation" % (
                label, st.get("spec_edges_executed", 0), v["_edges"]))
    obs = v.get("obs") if isinstance(v.get("obs"), dict) else {}
    deferred = obs.get("deferred") or []
    if deferred:
        # calls in situations with a known fatal outcome: executed in isolated workers, a few per situation
        ctx.extra_cov["%s_calls_deferred" % label] = sum((obs.get("deferred_counts") or {}).values())
        run_isolated(ctx, binary, v["_graph"], [d["path"] for d in deferred], name + "-deferred")
    if v.get("ok"):
        return
    fails = obs.get("failures") or []
    if fails:
        for f in fails:
            ctx.fail(f["key"], f["msg"] + " [" + " ".join(describe(c) for c in f["path"]) + "]", {"calls": f["path"], "config": label})
        return
    # crash / timeout of the whole exploration
    if not isolate(ctx, binary, v, name):
        ctx.fail("%s in product exploration %s" % (v.get("key"), label), v.get("msg", ""), {"config": label})


def trace_check(ctx, binary, seed, ops, runs, name, corrupt=False):
    """Record a random history from the real TreeIndex and let TLC accept or reject it."""
    tpath = os.path.join(ctx.work, name + ".ndjson")
    jpath = os.path.join(ctx.work, name + ".pending")
    args = ["drive", "--seed", str(seed), "--ops", str(ops), "--runs", str(runs), "--out", tpath,
            "--k", "64", "--t", "2", "--i", "4", "--avoid", ",".join(hazards()), "--journal", jpath]
    try:
        lines, raw = ctx.run_tool(binary, args, timeout=600)
    except Inconclusive as e:
        # the driver process died or hung inside the code under test: the journal names the call it was making
        pending = ""
        try:
            pending = open(jpath).read().strip().strip("\x00").strip()
        except Exception:
            pass
        if not pending:
            raise
        p = json.loads(pending)
        ctx.fail(NEVER + p["situation"], "the driver process died or hung in call %d of the seeded history (seed %d): %s\n%s" % (
            p["n"], seed, pending, str(e)[-1500:]), {"seed": seed, "ops": ops, "runs": runs, "pending": p})
        return None, 0, ""
    if lines and lines[-1].get("avoided"):
        ctx.extra_cov["trace_calls_avoided_known_fatal"] = lines[-1]["avoided"]
    text = open(tpath).read()
    events = text.count("\n")
    stopped = lines[-1].get("stopped") if lines else None
    if events < ops // 4 and not stopped:
        raise Inconclusive("driver recorded only %d events" % events)
    if stopped:
        ctx.note("driver stopped after %d events: %s (the recorded history is judged by TLC)" % (events, stopped))
    if corrupt:
        # self-test: change the value one Next returned (the last successful one) and expect rejection
        rows = text.split("\n")
        for j in range(len(rows) - 1, -1, -1):
            if rows[j].startswith('{"op":"next"') and '"ok":true' in rows[j]:
                e = json.loads(rows[j])
                e["v"] = e["v"] % 64 + 1
                rows[j] = json.dumps(e, separators=(",", ":"))
                break
        text = "\n".join(rows)
    try:
        r = ctx.tlc("TreeSetTrace", "TreeSetTrace.cfg", files={"trace.ndjson": text}, workers=1,
                    expect_violation=True, count=not corrupt, heap="4g", timeout=1500)
    except Inconclusive:
        # this TLC words a false POSTCONDITION differently from what vlib looks for: that is a rejected trace
        r = ctx.tlc_runs[-1] if ctx.tlc_runs else None
        if r is None or "Postcondition Accepted" not in r.out or "is false" not in r.out:
            raise
        r.violated = "postcondition"
    return r, events, text


def run(ctx):
    binary = ctx.go_build("vh-tree")

    # ---- the design: the clauses of the statement hold for the rule (history variables, no VIEW)
    ctx.tlc("TreeSet", "TreeSetProps.cfg")
    if not ctx.quick:
        ctx.tlc("TreeSet", "TreeSetProps2.cfg", timeout=1500)
        ctx.tlc("TreeSet", "TreeSetProps3.cfg", timeout=1500)

    # ---- binding A: product exploration
    plan = [("TreeSet.cfg", "k8i1", 110), ("TreeSetTokens.cfg", "tokens", 110), ("TreeSetTwoIt.cfg", "k4i2", 110)]
    if not ctx.quick:
        plan += [("TreeSetTwoItBig.cfg", "k6i2", 800), ("TreeSetBig.cfg", "k9i1", 800)]
    total_states = 0
    for cfg, label, tmo in plan:
        v = product(ctx, binary, cfg, "product-" + label, tmo)
        absorb_product(ctx, binary, v, "product-" + label, label)
        st = v.get("stats") or {}
        total_states += st.get("product_states", 0)
        ctx.traces_validated += st.get("product_states", 0)   # one shortest history replayed per product state
        print("product %s: %s" % (label, json.dumps(st, sort_keys=True)), flush=True)
    ctx.extra_cov["product_states_total"] = total_states
    # distinct non-trivial cases: (product state, call) pairs executed on the implementation
    calls = sum(ctx.extra_cov.get("%s_calls_executed" % label, 0) for _, label, _ in plan)
    ctx.evaluations += calls
    ctx.extra_cov["distinct_nontrivial"] = calls     # measured by the walker: each pair is executed exactly once

    # ---- binding B: long random histories, validated by TLC
    ops = ctx.pick(12000, 100000)
    r, events, text = trace_check(ctx, binary, ctx.seed, ops, ctx.pick(4, 16), "trace")
    ctx.extra_cov["trace_events"] = events
    ctx.evaluations += events
    if r is None:
        pass
    elif r.violated:
        rows = text.split("\n")
        at = r.depth            # events 1..depth-1 matched; event number `depth` has no matching spec action
        bad = rows[at - 1] if 0 < at <= len(rows) else "?"
        op = "?"
        try:
            op = json.loads(bad).get("op", "?")
        except Exception:
            pass
        ctx.fail("trace rejected at a %s event (seed %d)" % (op, ctx.seed),
                 "TLC rejects the recorded history at event %d: %s (violated: %s); the spec's state before it follows "
                 "from the %d events accepted so far" % (at, bad, r.violated, at - 1),
                 {"seed": ctx.seed, "ops": ops, "event": at, "line": bad,
                  "prefix_tail": rows[max(0, at - 40):at]})
    else:
        ctx.traces_validated += 1
        ctx.sample({"trace_head": [json.loads(x) for x in text.split("\n")[:12] if x]})

    # ---- the bindings are real: one corrupted expectation must be noticed (thorough tier)
    if not ctx.quick:
        v = product(ctx, binary, "TreeSetTwoIt.cfg", "selftest-product", 110, corrupt=37, count=False)
        if v.get("ok"):
            raise Inconclusive("self-test: a corrupted expected value in the graph was not noticed by the walker")
        r2, _, _ = trace_check(ctx, binary, ctx.seed, 4000, 2, "selftest-trace", corrupt=True)
        if not r2.violated:
            raise Inconclusive("self-test: a corrupted trace was accepted by TLC")
        ctx.note("self-test: corrupted graph edge rejected by the walker (%s); corrupted trace rejected by TLC" % v.get("key"))

    return ctx.finish(
        "model_checking",
        rule="TLC enumerates every state of TreeSet (sets of values per token x iterator positions) and every call "
             "(Add/Remove of every value under every token list, Begin, Next, Advance to every key); the exported "
             "graph is explored in product with the real search.TreeIndex: every call enabled in the spec is executed "
             "on every reachable concrete state (AVL shape + balance factors + iterator cursors, also on deleted "
             "nodes), reached by its shortest history; result, in-order contents per token, AVL invariants (balance = "
             "depth difference, |balance| <= 1, parent links, ordering, no deleted node linked) and the token tree are "
             "compared after every call. distinct = (product state, call) pairs executed. Plus a seeded random history "
             "(64 values, 2 tokens, 4 iterators) validated event by event by TLC against TreeSetTrace.",
        assumptions=["iterator semantics = DESIGN.md A.2: Next returns the least element of the current set greater "
                     "than the last value returned, Advance(k) the least element >= max(k, last); this implies the "
                     "four clauses of the statement (checked by TLC over history variables) and is deterministic",
                     "an iterator is not used after it returned false; Begin is only called for a token that has had "
                     "a value (otherwise the code returns a detached empty iterator)",
                     "Len()/EstimateLength()/NumTokens() are not asserted (not part of the statement)",
                     "values are ints compared by <; one goroutine"],
        exhaustive=True)
