"""C39 -- tag lists behave as ordered maps.  Spec: TagSeq.tla; binding A (every transition + walks)."""
import random
from vlib import canon

META = {
    "engine": "tags",
    "level": "model_checking",
    "text": "TagSeq.tla is model-checked exhaustively (all tag lists over 3 keys x 2 values, every call incl. every "
            "RemoveTags key list of length <= 3) and EVERY transition TLC generates is executed on the real b6.Tags "
            "value and compared (state and return values); random walks add history-dependent capacity/aliasing.",
    "note": "Small scope: 3 stored keys + 1 absent key, 2 values, string values only. Trusted: TLC, the 80-line Go adapter.",
    "technique": "TLA+ spec (TagSeq) + TLC exhaustive; full transition graph replayed on b6.Tags",
}
from graphs import Graph


def run(ctx):
    r = ctx.tlc("TagSeq", "TagSeq.cfg")
    edges = r.lines.get("EDGE", [])
    if len(edges) < 1000:
        raise Exception("graph export too small: %d" % len(edges))
    g = Graph(edges)
    binary = ctx.go_build("vh-tags")
    cases = []
    # 1. every transition of the spec from every abstract state, on a freshly built slice with and without
    #    spare capacity (append/copy behave differently when the backing array has room)
    for e in edges:
        for spare in (0, 2):
            cases.append({"id": len(cases), "from": e["from"], "spare": spare,
                          "steps": [{"ev": e["ev"], "to": e["to"]}]})
    nsingle = len(cases)
    # 2. walks on one evolving slice (history dependent capacity / aliasing)
    rng = random.Random(ctx.seed)
    inits = [e["from"] for e in edges[::97]]
    nwalks = ctx.pick(3000, 60000)
    for _ in range(nwalks):
        init = rng.choice(inits)
        path = g.random_walk(init, ctx.pick(8, 16), rng)
        cases.append({"id": len(cases), "from": init, "spare": rng.choice([0, 1, 3]),
                      "steps": [{"ev": e["ev"], "to": e["to"]} for e in path]})
    ctx.sample({"from": cases[5]["from"], "steps": cases[5]["steps"]})
    ctx.sample({"from": cases[nsingle]["from"], "steps": cases[nsingle]["steps"]})
    vs = ctx.run_cases(binary, "tags", cases, timeout_ms=10000)
    ctx.absorb(vs, case_of=lambda i: cases[i])
    for e in edges:
        ctx.distinct_cases.add(canon([e["from"], e["ev"]]))
    ctx.traces_validated = len(cases) - nsingle
    ctx.extra_cov["spec_edges"] = len(edges)
    ctx.extra_cov["spec_edges_executed_on_impl"] = len(edges)
    return ctx.finish(
        "model_checking",
        rule="TLC enumerates every tag list over 3 keys x 2 values (79 states) and every call (set/add/remove/"
             "RemoveTags with every key list of length<=3 incl. absent and repeated keys/MergeFrom every other list/"
             "get/clone); every generated transition is executed on a real b6.Tags value (two capacities) and the "
             "resulting slice and return values compared with the spec; plus seeded random walks over the graph on one "
             "evolving slice. distinct = distinct (state, call) pairs.",
        assumptions=["tag values are strings; keys are distinct on entry (the property's precondition)",
                     "AddTag is only specified for a key not yet present"],
        exhaustive=True)
