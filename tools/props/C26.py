"""C26 -- callers are told whether their change was applied.

Spec: Service.tla.  The Apply/AwcApply actions set the response from RespOf (error iff ApplyChange fails, else the
features the change touches); the invariant RespSound states it over the protocol.  TLC enumerates change kinds x
target existence x validity (and every ordered pair of them, so that existence depends on history) and exports the
expected response and world after every request; each is executed on the real grpc service AND through
api.Evaluator.EvaluateExpression (under the read lock, as the UI does)."""
from vlib import Inconclusive, canon
import props.service_lib as sl
from props.service_lib import R

META = {
    "engine": "service",
    "level": "model_checking",
    "text": "Service.tla gives every change request its response (error iff some part of the change cannot be applied, "
            "otherwise the IDs the change touches) and TLC checks the invariant RespSound over all interleavings of all "
            "pairs of requests. TLC enumerates the change kinds (add-tag, remove-tag, add-tags over a search / an explicit "
            "list, merged change, add-point new / replacing, add-collection, invalid feature, add-world-with-change) x "
            "target present / missing x world present / created on demand, singly and in every ordered pair, and EVERY such "
            "case is executed on the real grpc service and on api.Evaluator.EvaluateExpression; reported error, returned "
            "IDs and the world afterwards are compared with the spec.",
    "note": "Small scope: 4 feature IDs, 3 tags, 2 worlds, histories of length <= 2. IDs are compared as sets. The world after "
            "a failed non-atomic add-tags (partly applied by design of AddTags.Apply) is not compared. Trusted: TLC, the adapter.",
    "technique": "TLA+ spec (Service) + TLC exhaustive; CASE/SERIAL exports replayed on grpc service.Evaluate and "
                 "api.Evaluator.EvaluateExpression",
}

CATALOGUE = [
    R("add", "w1", f="f1", t="k"), R("add", "w1", f="f3", t="k"), R("add", "w1", f="c1", t="k"), R("add", "w2", f="f2", t="k"),
    R("add", "w2", f="f3", t="m"),
    R("rm", "w1", f="f1", t="n"), R("rm", "w1", f="f1", t="k"), R("rm", "w1", f="f3", t="n"), R("rm", "w2", f="f3", t="n"),
    R("add2", "w1", f="f1", g="f2", t="k"), R("add2", "w1", f="f1", g="f3", t="k"), R("add2", "w1", f="f3", g="f1", t="k"),
    R("merge", "w1", f="f1", g="f2", t="k"), R("merge", "w1", f="f1", g="f3", t="k"), R("merge", "w1", f="f3", g="f1", t="k"),
    R("merge", "w2", f="f2", g="c1", t="m"),
    R("addpt", "w1", f="f3", t="k"), R("addpt", "w1", f="f1", t="k"), R("addpt", "w1", f="c1", t="m"), R("addpt", "w2", f="f3", t="n"),
    R("badpt", "w1", f="f3", t="k"), R("badpt", "w2", f="f1", t="k"),
    R("addif", "w1", c="n", t="k"), R("addif", "w1", c="k", t="m"), R("rmif", "w1", c="n", t="m"), R("rmif", "w1", c="k", t="n"),
    R("awc", "w1", f="f1", t="k", x="w2"), R("awc", "w1", f="f3", t="k", x="w2"), R("awc", "w2", f="c1", t="k", x="w1"),
    R("ro", "w1", c="k"), R("del", "w1"), R("list"),
    # a plain (unindexed) tag: on an overlay world such an edit is only a side-table entry, and must fail all the same
    # when the feature does not exist
    R("add", "w1", f="f1", t="p"), R("add", "w1", f="f3", t="p"), R("merge", "w1", f="f1", g="f3", t="p"),
    R("add2", "w1", f="f3", g="f1", t="p"), R("rm", "w1", f="f3", t="p"),
]
CHANGE_KINDS = {"add", "rm", "addif", "rmif", "add2", "merge", "addpt", "badpt", "awc"}


def run(ctx):
    n = len(CATALOGUE)
    pairs = [(a, b) for a in range(1, n + 1) for b in range(a, n + 1)]
    singles = [(0, a) for a in range(1, n + 1)]
    cfgs = singles + pairs
    reqs_of = lambda g: [CATALOGUE[i - 1] if i else sl.IDLE for i in g]
    mod = sl.mc_module("MCService", CATALOGUE, cfgs, emit_serial=True, emit_cases=True)
    r = sl.tlc(ctx, "MCService", cfg_text=sl.mc_cfg(2, history=False, invariants=("RespSound", "LockInv", "ApplyExclusive")),
                files={"MCService.tla": mod}, timeout=800)
    case_lines = r.lines.get("CASE", [])
    serial_lines = r.lines.get("SERIAL", [])
    if len(case_lines) != n or len(serial_lines) != len(cfgs):
        raise Inconclusive("TLC export incomplete: %d CASE lines for %d requests, %d SERIAL lines for %d configurations" % (
            len(case_lines), n, len(serial_lines), len(cfgs)))
    # vacuity: the enumeration contains failing and succeeding applies of every change kind that can fail
    by_kind = {}
    for c in case_lines:
        by_kind.setdefault(c["req"]["k"], set()).add(c["resp"]["err"])
    for k in ("add", "rm", "add2", "merge", "awc"):
        if by_kind.get(k) != {True, False}:
            raise Inconclusive("enumeration is vacuous for %s: error values %s" % (k, by_kind.get(k)))
    binary, _ = sl.build(ctx)
    cases = []
    for s in serial_lines:
        g = tuple(s["cfg"])
        reqs = reqs_of(g)
        done = set()
        for run_ in s["runs"]:
            order = [c for c in run_["order"] if g[c - 1]]
            if tuple(order) in done or (len(order) == 2 and g[0] == g[1] and order != [1, 2]):
                continue
            done.add(tuple(order))
            # responses come in execution order (idle clients included): put them back per client
            resp = [None, None]
            for pos, c in enumerate(run_["order"]):
                resp[c - 1] = run_["resps"][pos]
            partial = any(resp[c - 1]["err"] and reqs[c - 1]["k"] == "add2" for c in order)
            for path, cancel in (("grpc", ""), ("ui", ""), ("grpc", "mutation")):
                c = sl.base_case(reqs, "serial", path)
                c.update({"id": len(cases), "order": order, "final": sl.canon_final(run_["final"]), "resp": resp,
                          "check_resp": True, "check_world": not partial, "cancel": cancel})
                cases.append(c)
    # the single-request CASE lines must agree with the SERIAL export (two routes through the spec)
    single_final = {tuple(s["cfg"])[1]: s for s in serial_lines if s["cfg"][0] == 0}
    for c in case_lines:
        s = single_final[c["i"]]
        if sl.canon_final(c["final"]) != sl.canon_final(s["runs"][0]["final"]):
            raise Inconclusive("spec exports disagree for request %d" % c["i"])
    ctx.sample({"request": sl.req_sig(case_lines[1]["req"]), "expected_response": case_lines[1]["resp"],
                "world_after": sl.canon_final(case_lines[1]["final"])})
    ctx.sample({"requests": cases[-3]["sig"], "order": cases[-3]["order"], "path": cases[-3]["path"], "expected": cases[-3]["resp"]})
    vs = ctx.run_cases(binary, "service", cases, timeout_ms=60000, workers=10)
    ctx.absorb(vs, case_of=lambda i: cases[i])
    for c in cases:
        kinds = [c["reqs"][i - 1]["k"] for i in c["order"]]
        if any(k in CHANGE_KINDS for k in kinds):
            ctx.distinct_cases.add(canon([c["path"], c["sig"], c["order"]]))
    ctx.traces_validated = len(cases)
    ctx.extra_cov["change_requests_enumerated"] = n
    ctx.extra_cov["histories"] = len(cases) // 3
    return ctx.finish(
        "model_checking",
        rule="TLC enumerates 32 request shapes (every change kind x target present/missing x world present/absent, plus "
             "read/delete/list as context) and every ordered pair of them; each history runs one request at a time on the "
             "real grpc service (also with the request's context cancelled the moment its change starts to be applied) and on api.Evaluator, and after every request the reported error and IDs, and at the end the "
             "worlds, are compared with the spec. distinct = distinct (front end, history) containing a change request.",
        assumptions=["returned IDs are compared as sets", "a change is 'applied' when ingest's Apply returns nil for it; the "
                     "spec's failure conditions are: tag edit on a missing feature, a feature that fails validation, any failing "
                     "part of a merged change", "the world after a failed non-atomic add-tags is not compared"],
        exhaustive=True)
