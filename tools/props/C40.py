"""C40 -- concurrent client requests behave like some serial order.

Spec: Service.tla (lock protocol of grpc/service.go Evaluate + ingest/worlds.go + add-world-with-change).
TLC explores every interleaving of every configuration (2 and 3 clients, one request each, from a catalogue of
request shapes), checks deadlock freedom, the lock invariants, termination, and exports per configuration the
serial outcomes, the outcomes the protocol can reach, and a schedule for every outcome that no serial order
explains.  Binding: the same configurations run on the real service (serially in every order: exact final worlds;
concurrently, repeatedly: final worlds must be a serial outcome, nobody may hang, lock-discipline monitors);
schedules of non-serializable outcomes are replayed through gates when /repo has the verifhook call sites."""
import random

from vlib import Inconclusive, canon
import props.service_lib as sl
from props.service_lib import R

META = {
    "engine": "service",
    "level": "model_checking",
    "text": "Service.tla models Evaluate/DeleteWorld/ListWorlds one action per lock operation (Go RWMutex with writer "
            "preference, worlds-map critical sections, world objects that survive deletion). TLC explores ALL "
            "interleavings of all 2-client and a seeded sample of 3-client configurations (about 100 quick / 700 thorough of 2600) over a "
            "catalogue of read-only, constant-change, state-dependent-change, add-world-with-change, delete and list "
            "requests: deadlock freedom, lock invariants, termination under fairness, and the set of reachable final "
            "worlds versus the serial outcomes. Every configuration is executed on the real grpc service: one request "
            "at a time in every order (final worlds must equal the spec's), and concurrently many times (final worlds "
            "must be a serial outcome; every request must return; changes must be applied under the write lock; one "
            "world object per ID). Schedules TLC finds for non-serializable outcomes are replayed through gates.",
    "note": "One request per client, <= 3 clients, 2 world IDs, 4 features, 3 tags; responses of read-only requests are "
            "not part of the statement and are not compared under concurrency. The real schedules are sampled (start "
            "barrier + seeded perturbation; deterministic gate replay only when the verifhook call sites are in /repo). "
            "Data races are outside the spec (a -race build of the same driver runs in the thorough tier as a monitor). "
            "Trusted: TLC, sync.RWMutex semantics as modelled, the Go adapter.",
    "technique": "TLA+ spec (Service) + TLC exhaustive over interleavings; outcome sets and witness schedules checked "
                 "against grpc.NewB6Service (serial replay, concurrent runs, gate replay)",
}

CATALOGUE = [
    R("ro", "w1", c="n"), R("ro", "w2", c="n"),
    R("add", "w1", f="f1", t="k"), R("add", "w1", f="f2", t="k"), R("add", "w2", f="f1", t="k"),
    R("rm", "w1", f="f1", t="n"), R("rm", "w1", f="f1", t="m"),
    R("rmif", "w1", c="n", t="m"), R("rmif", "w1", c="m", t="n"), R("rmif", "w1", c="n", t="n"),
    R("rmif", "w2", c="m", t="n"),
    R("addif", "w1", c="n", t="k"), R("addif", "w1", c="m", t="k"), R("addif", "w1", c="k", t="m"),
    R("awc", "w1", f="f1", t="k", x="w2"), R("awc", "w1", f="f2", t="k", x="w2"), R("awc", "w2", f="f1", t="k", x="w1"),
    R("awc", "w1", f="f2", t="m", x="w1"),
    R("del", "w1"), R("del", "w2"), R("list"),
    R("addpt", "w1", f="f3", t="k"), R("add", "w1", f="f3", t="m"),     # an apply that fails unless the point was added first
]
EVAL_KINDS = {"ro", "add", "rm", "addif", "rmif", "add2", "merge", "addpt", "badpt", "awc"}


STATE_DEPENDENT = {"addif", "rmif"}


def awc_race(reqs):
    """add-world-with-change applies its change to world x under the READ lock (Service.tla action AwcApply, which the
    model takes as ONE step).  On the real code that mutation is not atomic for a request that computes its change
    from the same world object at the same time (torn read), nor for a second add-world-with-change mutating the same
    object (two writers under read locks).  Returns the class of such a collision in this configuration, or None."""
    readers, writers = set(), False
    for i, a in enumerate(reqs):
        if a["k"] != "awc":
            continue
        for j, b in enumerate(reqs):
            if i == j:
                continue
            if b["k"] in STATE_DEPENDENT and b["w"] == a["x"]:
                readers.add(b["k"])
            if b["k"] == "awc" and b["x"] == a["x"]:
                writers = True
    if readers:
        return "torn-read:" + sorted(readers)[0]
    if writers:
        return "concurrent-writers"
    return None


def awc_shared_world(reqs):
    for i, a in enumerate(reqs):
        if a["k"] == "awc":
            for j, b in enumerate(reqs):
                if i != j and b["k"] in EVAL_KINDS and (b["w"] == a["x"] or (b["k"] == "awc" and b["x"] == a["x"])):
                    return True
    return False


def classify(verdicts, cases, race=False):
    """Narrow keys for failures that come from add-world-with-change mutating under the read lock."""
    for v in verdicts:
        if v.get("ok"):
            continue
        c = cases[v["id"]]
        key = v.get("key") or ""
        if c["mode"] == "serial":
            continue
        cls = awc_race(c["reqs"])
        if key.startswith("outcome-not-in-model:") or key.startswith("index-inconsistent:"):
            if cls:
                v["key"] = "awc-mutation-under-read-lock:" + cls
        elif key.startswith("crash:") or key.startswith("panic:"):
            # a fatal "concurrent map writes", a panic inside the overlay, or (race build) a data race report
            what = "data-race" if "DATA RACE" in (v.get("msg") or "") else key.split("@")[0]
            if what == "data-race" and awc_shared_world(c["reqs"]):
                # any request evaluating on the world object that add-world-with-change mutates races with it
                v["key"] = "awc-mutation-under-read-lock:data-race"
            elif cls:
                v["key"] = "awc-mutation-under-read-lock:" + cls
                v["msg"] = "[%s] %s" % (what, v.get("msg") or "")
            elif race:
                v["key"] = "%s:%s" % (what, sl.shape(c["reqs"]))


def run(ctx):
    rng = random.Random(ctx.seed)
    n = len(CATALOGUE)
    pairs = [(0, a, b) for a in range(1, n + 1) for b in range(a, n + 1)]
    triples_all = [(a, b, c) for a in range(1, n + 1) for b in range(a, n + 1) for c in range(b, n + 1)]
    triples = rng.sample(triples_all, ctx.pick(100, 700))
    # always keep triples that extend the write-skew pair and the add-world-with-change pair
    ix = {sl.req_sig(r): i + 1 for i, r in enumerate(CATALOGUE)}
    skew = (ix["rmif(w1;n->m)"], ix["rmif(w1;m->n)"])
    awc2 = (ix["awc(w1;w2:f1,k)"], ix["awc(w1;w2:f2,k)"])
    triples += [skew + (ix[c],) for c in ("ro(w1;n)", "add(w1;f1,k)", "del(w1)", "list")]
    triples += [awc2 + (ix[c],) for c in ("ro(w2;n)", "del(w2)")]
    # three clients that all need world w2, which does not exist yet (creation race in FindOrCreateWorld)
    triples += [(ix["ro(w2;n)"], ix["add(w2;f1,k)"], ix["rmif(w2;m->n)"]), (ix["ro(w2;n)"], ix["ro(w2;n)"], ix["add(w2;f1,k)"])]
    # a change computed from a world that an earlier request modified, with a request that removes or replaces that
    # world: run with the third request inside the second one's read->write upgrade gap (gap schedules below)
    GAP_TRIPLES = [("add(w1;f2,k)", "addif(w1;k->m)", "del(w1)"), ("add(w1;f2,k)", "addif(w1;k->m)", "awc(w2;w1:f1,k)"),
                   ("rm(w1;f1,n)", "rmif(w1;n->m)", "del(w1)"), ("add(w1;f2,k)", "addif(w1;k->m)", "rm(w1;f1,m)")]
    triples += [tuple(ix[x] for x in t) for t in GAP_TRIPLES]
    triples = sorted(set(tuple(sorted(t)) for t in triples))
    cfgs = pairs + triples
    reqs_of = lambda g: [CATALOGUE[i - 1] if i else sl.IDLE for i in g]

    # ---- 1. model checking ------------------------------------------------------------------------------------
    mod = sl.mc_module("MCService", CATALOGUE, cfgs)
    main = sl.tlc(ctx, "MCService", cfg_text=sl.mc_cfg(3, invariants=("LockInv", "ApplyExclusive", "OneWorldPerID", "RespSound",
                                                                  "SafeSerializable")),
                   files={"MCService.tla": mod}, timeout=800)
    outcomes = main.lines.get("OUTCOME", [])
    serial_lines = main.lines.get("SERIAL", [])
    if len(serial_lines) != len(cfgs) or not outcomes:
        raise Inconclusive("TLC export incomplete: %d SERIAL lines for %d configurations, %d OUTCOME lines" % (
            len(serial_lines), len(cfgs), len(outcomes)))
    small = pairs if ctx.quick else pairs + rng.sample(triples, 250)
    # serial schedules of the protocol = the serial reference (SerialStep is not a second opinion)
    # (thorough only: in the quick tier the serial reference is bound by the serial replay on the real service below)
    if not ctx.quick:
        sl.tlc(ctx, "MCService", cfg_text=sl.mc_cfg(3, serial=True, history=False, invariants=("SerialModeOK", "LockInv")),
               files={"MCService.tla": sl.mc_module("MCService", CATALOGUE, small, emit_serial=False)}, timeout=600)
    # termination under weak fairness (no VIEW, no history)
    sl.tlc(ctx, "MCService", cfg_text=sl.mc_cfg(3, history=False, properties=("Termination",), spec="FairSpec", view=False),
            files={"MCService.tla": sl.mc_module("MCService", CATALOGUE, small, emit_serial=False)}, timeout=1500)

    serial = {}      # cfg -> set of canonical finals
    runs = {}        # cfg -> list of (order, final)
    for s in serial_lines:
        g = tuple(s["cfg"])
        serial[g] = set(sl.canon_final(f) for f in s["outs"])
        runs[g] = [(r["order"], sl.canon_final(r["final"])) for r in s["runs"]]
    model = {}       # cfg -> {final: schedule}
    ser_reached = {}
    for o in outcomes:
        g = tuple(o["cfg"])
        f = sl.canon_final(o["final"])
        model.setdefault(g, {})
        if f not in model[g] or len(o["sched"]) < len(model[g][f]):
            model[g][f] = o["sched"]
        if (f in serial[g]) != o["serial"]:
            raise Inconclusive("decoding problem: serial flag of an OUTCOME line disagrees with the SERIAL line")
    for g in cfgs:
        if not serial[g] <= set(model.get(g, {})):
            raise Inconclusive("model problem: a serial outcome of %s is not reachable in the protocol" % (g,))
    nonserial = {g: {f: s for f, s in model[g].items() if f not in serial[g]} for g in cfgs}
    nonserial = {g: v for g, v in nonserial.items() if v}
    # the smallest non-serializable core of a configuration: a pair that is itself non-serializable, else itself
    bad_pairs = {g for g in nonserial if g[0] == 0}

    def cause(g):
        if g[0] != 0:
            subs = [(0,) + p for p in ((g[0], g[1]), (g[0], g[2]), (g[1], g[2]))]
            hit = sorted(sl.shape(reqs_of(p)) for p in subs if p in bad_pairs)
            if hit:
                return hit[0]
        return sl.shape(reqs_of(g))
    ctx.note("model: %d configurations (%d pairs, %d triples); %d have outcomes no serial order explains (%d pairs: %s)" % (
        len(cfgs), len(pairs), len(triples), len(nonserial), len(bad_pairs),
        "; ".join(sorted(set(sl.shape(reqs_of(g)) for g in bad_pairs)))))
    core3 = sorted(set(cause(g) for g in nonserial if g[0] != 0 and cause(g) == sl.shape(reqs_of(g))))
    if core3:
        ctx.note("triples that are non-serializable in the model although every pair in them is serializable: " + "; ".join(core3[:6]))

    # ---- 2. the real service ------------------------------------------------------------------------------------
    binary, hooks = sl.build(ctx)
    if not hooks:
        ctx.note("gate replay skipped: /repo has no verifhook call sites (hooks/verifhook-package.diff + hooks/service-gate.diff); "
                 "concurrent runs use start-time perturbation only")
    cases = []

    def add(c):
        c["id"] = len(cases)
        cases.append(c)
    # (a) serial replay: the spec's serial reference is the real sequential behaviour
    ser_cfgs = cfgs if not ctx.quick else pairs + rng.sample(triples, 50)
    for g in ser_cfgs:
        done = set()
        for order, final in runs[g]:
            key = tuple(c for c in order if g[c - 1])
            if key in done:
                continue
            done.add(key)
            c = sl.base_case(reqs_of(g), "serial")
            c.update({"order": list(key), "final": final, "check_world": True})
            add(c)
    nserial = len(cases)
    # (b) concurrent runs
    reps = ctx.pick(8, 60)
    conc_cfgs = cfgs if not ctx.quick else pairs + rng.sample(triples, 80)
    for g in conc_cfgs:
        for path in (("grpc", "ui") if (g in nonserial or rng.random() < 0.15) else ("grpc",)):
            c = sl.base_case(reqs_of(g), "conc", path)
            heavy = g in nonserial
            # several clients asking for a world that is not in the map yet and that nobody deletes: creation race
            rs = [r for r in reqs_of(g) if r["k"] in EVAL_KINDS]
            creators = sum(1 for r in rs if r["w"] == "w2") >= 2 and not any(
                (r["k"] == "del" and r["w"] == "w2") or (r["k"] == "awc" and r["x"] == "w2") for r in reqs_of(g))
            c.update({"serial": sorted(serial[g]), "model": sorted(model[g]),
                      "reps": reps * (3 if heavy else (12 if creators else 1)),
                      "perturb": True, "cause": cause(g) if heavy else ""})
            add(c)
    nconc = len(cases) - nserial
    # (c) gate replay of every schedule TLC found for a non-serializable outcome
    ngated = 0
    gated_cfgs = sorted(nonserial) if not ctx.quick else sorted(bad_pairs) + sorted(g for g in nonserial if g[0] != 0)[:40]
    for g in gated_cfgs:
        for final, sched in sorted(nonserial[g].items()):
            c = sl.base_case(reqs_of(g), "gated")
            c.update({"serial": sorted(serial[g]), "model": sorted(model[g]), "sched": sched, "want": final,
                      "reps": 1, "cause": cause(g)})
            add(c)
            ngated += 1
    # (c2) gap schedules: request B runs from start to end inside the read->write upgrade gap of request A (after an
    # optional request P has run to its end); whatever the real code leaves must be a final the protocol model
    # reaches for that configuration.  These are schedules whose model outcome is SERIAL as a rule, so (c) never
    # replays them: they bind the code to the model's statement "a change is applied to the world object found at
    # the start, also when that world has been deleted or replaced in the meantime".
    UPG = {"add", "rm", "addif", "rmif", "addpt", "add2", "merge", "badpt"}

    def full(cl, r):
        if r["k"] == "del":
            return [[cl, "delete"]]
        if r["k"] == "list":
            return [[cl, "list"]]
        ev = [[cl, "rlock"], [cl, "find"], [cl, "eval"]]
        if r["k"] == "awc":
            ev += [[cl, "awcfind"], [cl, "awcapply"]]
        elif r["k"] in UPG:
            ev += [[cl, "lock"], [cl, "rlock2"]]
        return ev
    ngap = 0
    gap_cfgs = list(pairs) + [tuple(sorted(ix[x] for x in t)) for t in GAP_TRIPLES]
    for g in gap_cfgs:
        rs = reqs_of(g)
        live = [i + 1 for i in range(3) if g[i]]
        for a in live:
            if rs[a - 1]["k"] not in UPG:
                continue
            for b in live:
                if b == a:
                    continue
                pre = [c for c in live if c not in (a, b)]
                if g[0] == 0 and g[1] == g[2] and a > b:
                    continue
                sched = []
                for c in pre:
                    sched += full(c, rs[c - 1])
                sched += [[a, "rlock"], [a, "find"], [a, "eval"]] + full(b, rs[b - 1]) + [[a, "lock"], [a, "rlock2"]]
                c = sl.base_case(rs, "gated")
                c.update({"serial": sorted(serial[g]), "model": sorted(model[g]), "sched": sched, "want": "",
                          "reps": 1, "cause": cause(g) if g in nonserial else "", "gap": [pre, a, b]})
                add(c)
                ngap += 1
    ctx.extra_cov["gap_schedules"] = ngap if hooks else 0
    ctx.sample({"requests": cases[0]["sig"], "mode": "serial", "order": cases[0]["order"], "expected_final": cases[0]["final"]})
    ctx.sample({"requests": cases[nserial]["sig"], "mode": "concurrent", "serial_outcomes": cases[nserial]["serial"]})
    if ngated:
        gc = cases[nserial + nconc]  # the first gated case
        ctx.sample({"requests": gc["sig"], "mode": "gated", "schedule": gc["sched"], "model_final": gc["want"],
                    "serial_outcomes": gc["serial"]})
    vs = ctx.run_cases(binary, "service", cases, timeout_ms=120000, workers=10)
    classify(vs, cases)
    ctx.absorb(vs, case_of=lambda i: cases[i])
    for c in cases:
        ctx.distinct_cases.add(canon([c["mode"], c["path"], c["sig"], c.get("order"), c.get("want")]))
    ctx.traces_validated = ctx.extra_cov.get("concurrent_runs", 0) + nserial
    ctx.extra_cov["configurations"] = len(cfgs)
    ctx.extra_cov["configurations_nonserializable_in_model"] = len(nonserial)
    ctx.extra_cov["serial_cases"] = nserial
    ctx.extra_cov["concurrent_cases"] = nconc
    ctx.extra_cov["gated_cases"] = ngated if hooks else 0
    if hooks:
        rep = ctx.extra_cov.get("gated_reproduced_model_outcome", 0)
        ctx.note("gate replay: %d schedules, %d followed to the end, %d reproduced the model's non-serializable final worlds" % (
            ngated, ctx.extra_cov.get("gated_replayed", 0), rep))
        if ngated and rep == 0:
            ctx.note("no model candidate was reproduced on the real code: the model of the upgrade window may be stale")
    # (d) thorough: the same concurrent driver under the race detector (monitor only; reports become failures)
    if not ctx.quick:
        try:
            rb = ctx.go_build("vh-service", race=True, tags="verif,verifhook" if hooks else "verif")
        except Inconclusive as e:
            rb = None
            ctx.note("race build unavailable: " + str(e)[:200])
        if rb:
            rc = [dict(c, reps=5, id=i) for i, c in enumerate([c for c in cases if c["mode"] == "conc"][:400])]
            import os
            old_gorace = os.environ.get("GORACE")
            os.environ["GORACE"] = "halt_on_error=1"     # the worker dies at the first report: attributed to the case in flight
            try:
                rvs = ctx.run_cases(rb, "service", rc, timeout_ms=300000, workers=6, name="service-race")
            finally:
                if old_gorace is None:
                    del os.environ["GORACE"]
                else:
                    os.environ["GORACE"] = old_gorace
            classify(rvs, rc, race=True)
            ctx.absorb(rvs, case_of=lambda i: rc[i])
            ctx.extra_cov["race_detector_cases"] = len(rc)
    return ctx.finish(
        "model_checking",
        rule="configurations = multisets of 2 (all) and 3 (seeded sample + fixed ones) requests from a "
             "23-entry catalogue; TLC explores every interleaving of each. Each configuration runs on the real service "
             "serially in every distinct order (exact final worlds) and concurrently `reps` times (final worlds in the serial "
             "set). distinct = distinct (mode, front end, request multiset, order/schedule).",
        assumptions=["one request per client; <= 3 clients; worlds w1 (present) and w2 (absent) at the start",
                     "only final worlds are compared under concurrency (the statement); responses are compared in serial runs",
                     "searchable '#' tags on point features only (keeps the known C12 overlay defects out of the oracle)",
                     "real schedules are sampled unless the verifhook gates are in /repo"],
        exhaustive=False)
