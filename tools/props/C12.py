"""C12 -- mutable overlay world behaves like a map of features under any edits."""
import mworld

META = {
    "engine": "mworld",
    "level": "model_checking",
    "text": "MutableWorld.tla (abstract map ID->feature; AddFeature/AddTag/RemoveTag) is model-checked exhaustively on "
            "two scenarios; every exported transition is executed on real MutableOverlayWorlds (over a basic world, over a "
            "BasicMutableWorld, over an empty base) through its BFS-shortest prefix, plus seeded random walks and, per feature, all 3-step histories of operations on it, on what it refers to and on what refers to it; after every "
            "step lookup, tags, existence, tag search and enumeration must equal the specification's observation.",
    "note": "Small scope (<= 8 features, 3 tag keys, 2 values). Tags compared as maps (order unspecified in mutable worlds). "
            "The `all` query is compared modulo points without searchable tags. Trusted: TLC, harness/obs, vh-world.",
    "technique": "TLA+ spec (MutableWorld) model-checked by TLC; exported state graph replayed on the real worlds",
}


def run(ctx):
    return mworld.run_family(
        ctx, "C12", scenarios=[1, 2, 8], impls=["overlay-basic", "overlay-mutable", "overlay-empty", "overlay-compact"],
        sections=["result-overreject", "result-panic", "lookup", "each", "search", "problems", "hang"],
        meta_rule="every transition of the TLC state graph of MutableWorld scenarios 1-2 executed on 3 overlay world "
                  "constructions via its shortest prefix + random walks; distinct = distinct (scenario, impl, op path)",
        assumptions=["tag values are strings", "RemoveTag on a missing feature is not generated (unspecified)"],
        focused=(250, 1200))
