"""Binding B for the iter family (C06, C08): `vh-iter drive` records random runs of the real iterators,
TraceSortedIter.tla judges every recorded call."""
import json
import os

from vlib import Inconclusive
from props import iterlib


def validate(ctx, col, mode, runs, maxkeys, calls, kinds, tag=None):
    tag = tag or mode
    binary = ctx.go_build("vh-iter")
    trace = os.path.join(ctx.work, "trace-%s.ndjson" % tag)
    tables = os.path.join(ctx.work, "tables-%s.ndjson" % tag)
    out, raw = ctx.run_tool(binary, ["drive", "--seed", str(ctx.seed), "--runs", str(runs), "--maxkeys", str(maxkeys),
                                     "--calls", str(calls), "--mode", mode, "--kinds", kinds,
                                     "--out", trace, "--tables", tables], timeout=1200)
    if not out:
        raise Inconclusive("drive printed no summary: " + raw[-2000:])
    summary = out[-1]
    text = open(trace).read()
    r = ctx.tlc("TraceSortedIter", "TraceSortedIter.cfg", files={"trace.ndjson": text}, workers=1, timeout=1500,
                xss="256m", heap="6g")
    if not r.lines.get("ACCEPT"):
        raise Inconclusive("TLC did not consume the whole trace (%s): %s" % (tag, r.out[-1500:]))
    lines = None
    mism = r.lines.get("MISMATCH", [])
    if mism:
        lines = text.splitlines()
        runs_meta = [json.loads(x) for x in open(tables)]
    # streams are written children first: within one run the first rejected stream is the innermost node that
    # misbehaved; rejections of its ancestors' streams in the same run are consequences and are not reported
    first_of_run = {}
    for m in sorted(mism, key=lambda m: m["line"]):
        meta = next(x for x in runs_meta if x["first_line"] <= m["line"] <= x["last_line"])
        first_of_run.setdefault(meta["run"], m)
    consequences = len(mism) - len(first_of_run)
    for m in sorted(first_of_run.values(), key=lambda m: m["line"]):
        ln = m["line"]                      # 1-based line of the offending call
        start = ln
        while json.loads(lines[start - 1])["op"] != "reset":
            start -= 1
        reset = json.loads(lines[start - 1])
        hist = [json.loads(x) for x in lines[start:ln]]
        meta = next(x for x in runs_meta if x["first_line"] <= ln <= x["last_line"])
        tab = meta["table"]
        d = sorted(m["d"])
        want = {"ok": m["want"]["ok"], "v": m["want"]["v"]}
        sig = iterlib.signature(reset["node"], hist, want, d, tab)
        viol = {"sig": sig, "node": reset["node"], "node_query": reset["q"], "node_denotation": d, "node_calls": hist,
                "want": want, "symptom": sig.split(" -> ")[-1], "query": meta["q"], "top_calls": [],
                "idx": {t: len(v) for t, v in meta["idx"].items()}, "kind": meta["kind"],
                "profile": "random seed %d run %d" % (ctx.seed, meta["run"])}
        if len(d) > 24:
            viol["node_denotation"] = d[:24]
            viol["note"] = "denotation truncated (%d values)" % len(d)
        what = "recorded run rejected by TraceSortedIter at line %d: %s" % (ln, iterlib.describe(viol, tab))
        ctx.fail(sig, what, {"tool": "drive", "args": {"seed": ctx.seed, "runs": runs, "maxkeys": maxkeys, "calls": calls,
                                                        "mode": mode, "kinds": kinds}, "run": meta["run"], "trace_line": ln,
                             "violation": viol, "variant": meta["variant"]})
    for pn in summary.get("panics") or []:
        ctx.fail("%s: panic @%s" % (pn.get("kind"), pn.get("site")),
                 "random run %d (seed %d, mode %s) panicked in the code under test: %s" % (pn.get("run"), ctx.seed, mode, pn.get("msg")),
                 {"tool": "drive", "args": {"seed": ctx.seed, "runs": runs, "maxkeys": maxkeys, "calls": calls, "mode": mode,
                                            "kinds": kinds}, "run": pn.get("run"), "query": pn.get("query")})
    ctx.traces_validated += summary.get("streams", 0)
    ctx.evaluations += summary.get("events", 0)
    for k in ("streams", "events", "lists_multiblock", "lists_exactfit", "lists_padded", "lists_multins"):
        ctx.extra_cov["trace_" + k] = ctx.extra_cov.get("trace_" + k, 0) + summary.get(k, 0)
    ctx.extra_cov["trace_mismatches"] = ctx.extra_cov.get("trace_mismatches", 0) + len(mism)
    if mism:
        ctx.note("binding B (%s): %d rejected streams in %d runs (%d are ancestors of a rejected stream)" % (
            tag, len(mism), len(first_of_run), consequences))
    ctx.note("binding B (%s): %d runs, %d streams, %d recorded calls judged by TLC, %d mismatches" % (
        tag, summary.get("runs", 0), summary.get("streams", 0), summary.get("events", 0), len(mism)))
    return summary, mism


def selftest(ctx, mode="list"):
    """Corrupt one logged result and expect TLC to report exactly that line."""
    binary = ctx.go_build("vh-iter")
    trace = os.path.join(ctx.work, "trace-selftest.ndjson")
    ctx.run_tool(binary, ["drive", "--seed", str(ctx.seed + 99), "--runs", "20", "--maxkeys", "40", "--calls", "10",
                          "--mode", mode, "--kinds", "array", "--out", trace])
    lines = open(trace).read().splitlines()
    target = None
    for i, ln in enumerate(lines):
        e = json.loads(ln)
        if e["op"] in ("next", "advance") and e["ok"] and i > len(lines) // 2:
            e["v"] += 1
            lines[i] = json.dumps(e)
            target = i + 1
            break
    if target is None:
        raise Inconclusive("self-test: nothing to corrupt")
    r = ctx.tlc("TraceSortedIter", "TraceSortedIter.cfg", files={"trace.ndjson": "\n".join(lines) + "\n"}, workers=1,
                count=False, quiet=True)
    got = [m["line"] for m in r.lines.get("MISMATCH", [])]
    if target not in got:
        raise Inconclusive("self-test: corrupted trace line %d not reported (reported %r)" % (target, got))
    ctx.note("self-test: corrupted trace line %d rejected by TraceSortedIter" % target)
