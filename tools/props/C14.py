"""C14 -- snapshots never change after they are taken  (MutableWorld family; see tools/mworld.py)"""
import mworld

META = {
    "engine": "mworld",
    "level": "model_checking",
    "text": "SnapshotsFrozen is an action property of MutableWorld.tla checked by TLC; on real MutableOverlayWorlds every transition of scenarios 5 and 6 (edits before and after up to two snapshots) is executed and every snapshot taken so far is re-observed after every later step (lookup incl. path geometry through moved points, search through the snapshot's index, enumeration, references) and must equal its own observation at the moment it was taken (the specification's frozen copy snaps[i]).",
    "note": 'Small scope (<= 13 features on a convex polygon, 3 tag keys, 2 values); self-crossing loops are never generated (validity unspecified in the vendored s2). Trusted: TLC, harness/obs, vh-world.',
    "technique": "TLA+ spec (MutableWorld) model-checked by TLC; exported state graph replayed on the real worlds",
}


def run(ctx):
    return mworld.run_family(
        ctx, "C14", scenarios=[5, 6, 9], impls=['overlay-basic', 'overlay-mutable', 'overlay-empty', 'overlay-compact', 'tagsoverlay'],
        max_paths={6: 100000, 9: 100000},
        impl_caps={6: {'overlay-mutable': 500, 'overlay-empty': 500, 'tagsoverlay': 100000}, 9: {'overlay-mutable': 300, 'overlay-empty': 300}},
        sections=['snap:changed', 'lookup', 'search', 'each', 'problems'],
        select=lambda e: len(e['to']['snaps']) > 0,
        meta_rule='every transition in states with >= 1 snapshot executed via its shortest prefix on 3 overlay constructions + random walks',
        assumptions=['MutableTagsOverlayWorld takes part on histories of AddTag and Snapshot only (it has no other edit operation)'],
        focused=(150, 800))
