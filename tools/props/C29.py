"""C29 -- OSM data maps to features by fixed rules.  Spec: OSMMap.tla (+ StaticWorld!ValidSubset)."""
import os
import random

import vlib
from vlib import canon, Inconclusive

META = {
    "engine": "osm",
    "level": "model_checking",
    "text": "OSMMap!Features transcribes the documented mapping (node -> point; way -> path; closed way -> tagless path + "
            "area with the tags; multipolygon relation -> area whose polygons follow outer/inner members; other relation -> "
            "relation whose members point at what the elements became; key mapping table). TLC enumerates 576 OSM inputs "
            "(closed/open/clockwise/missing ways, multipolygons with missing or open members, relations whose ids collide "
            "with way ids) and 512 files with three relations in sequence, each one of eight shapes (multipolygons of one "
            "to three polygons with and without inner loops, a route), checks ClosedWayTags and MembersPointAtAreas, and prints the expected world; each input is "
            "ingested with ingest.BuildWorldFromOSM, from a .osm.pbf file written with osm.Writer, and as a compact index and lookup (tags, geometry, members), "
            "enumeration and search must equal the specification's.",
    "note": "Small scope: 4 nodes, 3 ways, 2 relations, 4 tag keys; relation member roles are not compared. The world "
            "builder's dropping of invalid features is part of the expectation (StaticWorld!ValidSubset). Trusted: TLC, "
            "harness/obs, vh-world.",
    "technique": "TLA+ spec (OSMMap) enumerated by TLC; every case ingested by the real OSM pipeline and observed",
}


def run(ctx):
    binary = ctx.go_build("vh-world")
    cases = []
    nexp = 0
    rng = random.Random(ctx.seed * 31337)
    # family 1: per-element alternatives (MCOSMMap); family 2: sequences of multipolygon relations of different
    # shapes in one file (MCOSMMap2): what a relation becomes must not depend on the relations read before it
    for module, cap_basic, cap_compact in (("MCOSMMap", ctx.pick(300, 576), ctx.pick(40, 576)),
                                           ("MCOSMMap2", ctx.pick(280, 512), ctx.pick(10, 512)),
                                           ("MCOSMMap3", 23, ctx.pick(6, 23))):     # the key mapping table, key by key
        run = ctx.tlc(module, module + ".cfg", timeout=1500, workers=4)
        exported = run.lines.get("CASE", [])
        qs = run.lines.get("QUERIES", [None])[0]
        keys = run.lines.get("KEYS", [None])[0]
        ids = run.lines.get("IDS", [None])[0]
        if not exported or qs is None or keys is None or ids is None:
            raise Inconclusive("%s exported nothing" % module)
        nexp += len(exported)
        rng.shuffle(exported)
        for impl, cores in (("basic", 1), ("basic", 3), ("basic-pbf", 2), ("compact", 2)):
            # a compact build costs ~3 s of CPU whatever its size
            subset = exported[:cap_basic] if impl.startswith("basic") else exported[:cap_compact]
            if impl == "basic-pbf" and ctx.quick:
                subset = subset[:150]
            if module == "MCOSMMap2" and impl == "basic" and cores == 3 and ctx.quick:
                subset = subset[:100]
            for c in subset:
                k = dict(c)
                k.update({"id": len(cases), "impl": impl, "cores": cores, "keys": keys, "ids": ids, "queries": qs,
                          "sections": ["lookup", "each", "search", "problems", "refs", "rels", "areas", "validity"]})
                cases.append(k)
    ctx.sample({"impl": cases[3]["impl"], "input": cases[3]["input"], "expected_dropped": cases[3]["dropped"]})
    vs = ctx.run_cases(binary, "osm", cases, timeout_ms=120000)
    for v in vs:
        ctx.evaluations += 1
        c = cases[v["id"]]
        ctx.distinct_cases.add(canon([c["impl"], c["cores"], c["input"]]))
        if v.get("ok"):
            continue
        rep = {"impl": c["impl"], "cores": c["cores"], "input": c["input"]}
        ms = ((v.get("obs") or {}).get("mismatches")) if isinstance(v.get("obs"), dict) else None
        if ms:
            for m in ms:
                ctx.fail(m["key"], "%s cores=%d: [%s] %s" % (c["impl"], c["cores"], m["section"], m["msg"]), dict(rep, mismatch=m))
        else:
            ctx.fail(v.get("key") or "unknown", "%s: %s" % (c["impl"], v.get("msg", "")), dict(rep, verdict=v))
    ctx.traces_validated = len(cases)
    ctx.extra_cov["osm_inputs_enumerated_by_tlc"] = nexp
    return ctx.finish("model_checking",
                      rule="every OSM input TLC enumerates ingested three ways (basic 1 and 3 cores, compact); "
                           "distinct = (impl, cores, input)",
                      assumptions=["relation member roles are not compared", "self-crossing ways are not generated"],
                      exhaustive=not ctx.quick)
