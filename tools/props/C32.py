"""C32 -- GeoJSON geometry round-trips and imports faithfully.

Spec: GeoJSONShape.tla (structure space of geometries / feature collections + the abstract import rule).
Binding A: every collection TLC enumerates is a CASE (input structure + expected imported features)
executed on the real geojson package and ingest.AddFeatures.FillFromGeoJSON.
"""
import random

from vlib import Inconclusive, canon

META = {
    "engine": "formats",
    "level": "exploration",
    "text": "GeoJSONShape.tla enumerates the structure space (6 geometry kinds x part/ring counts 0..3 x ring lengths, "
            "place and ring-orientation classes, collections of 1..3 features, property-map classes) and defines the import "
            "rule (one feature per GeoJSON feature, ID = index, rings without the closing duplicate); TLC checks the rule's "
            "sanity properties and exports every structure with its expected import. Each is executed on the real code: "
            "marshal/unmarshal equality of every coordinate (json.Unmarshal, geojson.Unmarshal, generic JSON reading of the "
            "text as [lng,lat], hand-written text) and FillFromGeoJSON + Apply on a mutable world, comparing geometry and tags.",
    "note": "Family R (codec), the weakest fit of the technique: there is no state machine; the spec contributes the "
            "exhaustive structure enumeration and the oracle for the import half, while coordinate equality is decided in Go. "
            "Hence level exploration. Coordinates come from 5 place classes + a table of extreme finite floats (marshal half "
            "only). Property maps are map[string]string as in the package's type (valid UTF-8, non-empty keys other than the "
            "geometry tag keys 'point'/'path'). MultiPoint/MultiLineString features are skipped by the importer: reported, "
            "not asserted. Trusted: TLC, geojson.go adapter, encoding/json, s2.",
    "technique": "TLA+ spec (GeoJSONShape) + TLC enumeration; every structure replayed on geojson + ingest.AddFeatures",
}


def run(ctx):
    rng = random.Random(ctx.seed)
    r = ctx.tlc("GeoJSONShape", "GeoJSONShape.cfg")
    structures = r.lines.get("CASE", [])
    if len(structures) < 3000:
        raise Inconclusive("too few structures exported by TLC: %d" % len(structures))
    binary = ctx.go_build("vh-formats")
    cases = []
    for s in structures:
        c = dict(s)
        c["id"] = len(cases)
        c["seed"] = rng.randrange(1000)
        c["world"] = rng.choice(["basic", "overlay"])
        cases.append(c)
        ctx.distinct_cases.add(canon([s["fc"], s["place"], s["orient"]]))
    # the same structures with extreme finite floats (marshal half only), once per distinct collection structure
    seen = set()
    for s in structures:
        k = canon(s["fc"])
        if k in seen:
            continue
        seen.add(k)
        for rep in range(ctx.pick(1, 4)):
            cases.append({"id": len(cases), "fc": s["fc"], "expect": s["expect"], "place": "floats", "orient": "rfc",
                          "seed": rng.randrange(1000), "world": "basic"})
    # a single *geojson.Feature handed to FillFromGeoJSON
    for s in structures:
        if len(s["fc"]) == 1 and s["place"] == "london" and s["orient"] == "rfc":
            cases.append({"id": len(cases), "fc": s["fc"], "expect": s["expect"], "place": "sydney", "orient": "rfc",
                          "seed": rng.randrange(1000), "world": "basic", "single": True})
    ctx.sample({k: cases[0][k] for k in ("fc", "expect", "place", "orient")})
    mid = next(c for c in cases if len(c["fc"]) == 3)
    ctx.sample({k: mid[k] for k in ("fc", "expect", "place", "orient")})
    poly = next(c for c in cases if c["fc"][0]["kind"] == "MultiPolygon" and len(c["fc"][0]["g"]) == 2)
    ctx.sample({k: poly[k] for k in ("fc", "expect", "place", "orient")})
    vs = ctx.run_cases(binary, "geojson", cases, timeout_ms=30000, name="geojson")
    ctx.absorb(vs, case_of=lambda i: cases[i])
    ctx.traces_validated = len(cases)
    ctx.extra_cov["spec_structures"] = len(structures)
    skipped = {k: n for k, n in ctx.extra_cov.items() if k.startswith("unhandled_kind_")}
    if skipped:
        ctx.note("features of kinds the importer does not map to a feature (skipped silently by fillFromFeature; reported, "
                 "not asserted): %s" % ", ".join("%s x%d" % (k[len("unhandled_kind_"):], n) for k, n in sorted(skipped.items())))

    # binding self-test: an expectation with a moved vertex must be reported
    sc = dict(next(c for c in cases if c["fc"][0]["kind"] == "LineString" and c["place"] != "floats"))
    sc["id"] = 0
    sc["corrupt"] = True
    sv = ctx.run_cases(binary, "geojson", [sc], name="geojson-selftest")
    if sv[0].get("ok"):
        raise Inconclusive("binding self-test: corrupted expectation not reported: %r" % sv[0])
    ctx.extra_cov["binding_selftest"] = "moved vertex reported: " + sv[0].get("key", "")

    return ctx.finish(
        "exploration",
        rule="TLC enumerates every feature collection structure of GeoJSONShape.tla (one feature of every geometry structure: "
             "kind x 0..3 parts/rings x ring lengths 3..5 / line lengths 2..4 incl. a closed line; collections of 2 and 3 "
             "features over one representative per kind) x 5 places x 3 ring orientations x 5 property-map classes, with the "
             "expected imported features; each is executed on the real code (marshal/unmarshal of geometry, feature, collection; "
             "import into a basic or overlay mutable world), plus the same structures with extreme finite floats (marshal half) "
             "and the single-Feature import path. distinct = distinct (collection structure, place, orientation).",
        assumptions=[
            "property maps are map[string]string (the package's type), valid UTF-8, keys non-empty and not 'point'/'path'",
            "import half asserted for Point, LineString, Polygon, MultiPolygon; 'same geometry' = same vertex sequence (paths), "
            "same vertex cycle per ring without the GeoJSON closing duplicate (areas), within 1e-9 degrees; tags compared as maps",
            "polygons are valid (holes strictly inside the outer ring, rings of 3..5 distinct vertices) and small (1e-3 degrees)",
            "marshal half: every finite float64 must come back bit-identical (encoding/json prints shortest round-trip forms)",
        ],
        exhaustive=True)


def replay(ctx, obj):
    """Re-run the one case recorded in a replay file."""
    rep = obj.get("replay") or {}
    case = dict(rep.get("case") or {})
    if not case:
        raise Inconclusive("replay file has no case")
    case["id"] = 0
    binary = ctx.go_build("vh-formats")
    vs = ctx.run_cases(binary, "geojson", [case], name="replay")
    ctx.absorb(vs, case_of=lambda i: case)
    ctx.sample(case)
    return ctx.finish("exploration", rule="replay of one recorded case on the real geojson/ingest code")
