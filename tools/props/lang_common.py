"""Helpers shared by C21.py and C22.py (family "lang": spec/Lang.tla, LangGen.tla, LangTrace.tla; harness vh-lang).

Programs are JSON trees of the shape Lang.tla defines:
  {"k":"lit","v":1} {"k":"str","s":"x"} {"k":"q","q":{...}} {"k":"sym","n":"a"}
  {"k":"call","f":E,"a":[E..]} {"k":"lam","p":["a"],"b":E}
"""
import json
import os
import random
import re
import threading

from vlib import Inconclusive, canon

ARITY = {"add": 2, "sub": 2, "sub3": 3, "neg": 1, "pair": 2, "first": 1, "second": 1, "apply1": 2, "applyto": 2,
         "keyed": 1, "tagged": 2, "typed": 2, "and": 2, "or": 2}
VARIADIC = {"call"}


# ------------------------------------------------------------------ constructors / printing
def Lit(i): return {"k": "lit", "v": i}
def Str(s): return {"k": "str", "s": s}
def Sym(n): return {"k": "sym", "n": n}
def Call(f, *a): return {"k": "call", "f": Sym(f) if isinstance(f, str) else f, "a": list(a)}
def Lam(p, b): return {"k": "lam", "p": list(p), "b": b}
def QLit(q): return {"k": "q", "q": q}
def Keyed(k): return {"op": "keyed", "key": k}
def Tagged(k, v): return {"op": "tagged", "key": k, "val": v}
def Typed(t, q): return {"op": "typed", "ty": t, "q": q}
def And(*qs): return {"op": "and", "qs": list(qs)}
def Or(*qs): return {"op": "or", "qs": list(qs)}


def show_q(q):
    op = q["op"]
    if op == "keyed":
        return q["key"]
    if op == "tagged":
        return q["key"] + "=" + q["val"]
    if op == "typed":
        return q["ty"] + ":(" + show_q(q["q"]) + ")"
    if op in ("and", "or"):
        return (" & " if op == "and" else " | ").join("(" + show_q(x) + ")" for x in q["qs"])
    return "?" + str(q.get("s"))


def show(e):
    """the program in the shell's notation (same rendering as the harness: used in failure keys)"""
    k = e["k"]
    if k == "lit":
        return str(e["v"])
    if k == "str":
        return json.dumps(e["s"])
    if k == "sym":
        return e["n"]
    if k == "q":
        return "[" + show_q(e["q"]) + "]"
    if k == "lam":
        return "{" + ",".join(e["p"]) + " -> " + show(e["b"]) + "}"
    if k == "call":
        f = show(e["f"])
        if e["f"]["k"] != "sym":
            f = "(" + f + ")"
        if not e["a"]:
            return f + "()"
        parts = [f]
        for a in e["a"]:
            s = show(a)
            parts.append("(" + s + ")" if a["k"] == "call" else s)
        return " ".join(parts)
    return "?" + k


def size(e):
    k = e["k"]
    if k == "lam":
        return 1 + size(e["b"])
    if k == "call":
        return 1 + (0 if e["f"]["k"] == "sym" else size(e["f"])) + sum(size(a) for a in e["a"])
    return 1


def free_syms(e, bound=frozenset()):
    k = e["k"]
    if k == "sym":
        return set() if e["n"] in bound else {e["n"]}
    if k == "lam":
        return free_syms(e["b"], bound | set(e["p"]))
    if k == "call":
        r = free_syms(e["f"], bound)
        for a in e["a"]:
            r |= free_syms(a, bound)
        return r
    return set()


def subexprs(e):
    yield e
    if e["k"] == "lam":
        yield from subexprs(e["b"])
    elif e["k"] == "call":
        yield from subexprs(e["f"])
        for a in e["a"]:
            yield from subexprs(a)


# ------------------------------------------------------------------ TLC: enumeration (LangGen) and judging (LangTrace)
def gen_cfg(profile, maxsize, emit):
    return ("SPECIFICATION Spec\nCONSTANTS\n  Profile = \"%s\"\n  MaxSize = %d\n  Emit = \"%s\"\n"
            "INVARIANT Sizes\nCHECK_DEADLOCK FALSE\n" % (profile, maxsize, emit))


def enumerate_programs(ctx, jobs, emit):
    """jobs: list of (profile, maxsize).  Runs LangGen once per job (in parallel, the enumeration of one
    profile is mostly sequential) and returns {(profile, maxsize): [payload,...]} of CASE / PROG lines."""
    tag = "CASE" if emit == "case" else "PROG"
    out, errs = {}, []
    dirs = [ctx.specdir() for _ in jobs]
    workers = max(2, min(8, (os.cpu_count() or 8) // max(1, len(jobs))))

    def one(i, job):
        try:
            r = ctx.tlc("LangGen", cfg_text=gen_cfg(job[0], job[1], emit), xss="256m", sdir=dirs[i],
                        workers=workers, timeout=ctx.pick(1200, 3000))
            out[job] = r.lines.get(tag, [])
        except Exception as e:  # noqa
            errs.append(e)

    ts = [threading.Thread(target=one, args=(i, j)) for i, j in enumerate(jobs)]
    for t in ts:
        t.start()
    for t in ts:
        t.join()
    if errs:
        raise errs[0]
    for j in jobs:
        if not out.get(j):
            raise Inconclusive("LangGen printed no %s lines for %s" % (tag, j))
    return out


def strip_msgs(o):
    if isinstance(o, dict):
        return {k: strip_msgs(v) for k, v in o.items() if k != "msg"}
    if isinstance(o, list):
        return [strip_msgs(x) for x in o]
    return o


def judge_trace(ctx, records, nchunks=32):
    """records: dicts {id, m, p, vp[, q, vq]} -> {id: RES payload} computed by TLC (LangTrace.tla)."""
    if not records:
        return {}
    text = "\n".join(json.dumps(strip_msgs(r), separators=(",", ":")) for r in records) + "\n"
    cfg = "SPECIFICATION Spec\nCONSTANTS\n  NChunks = %d\nCHECK_DEADLOCK FALSE\n" % nchunks
    r = ctx.tlc("LangTrace", cfg_text=cfg, files={"lang_trace.ndjson": text}, xss="256m",
                timeout=ctx.pick(900, 3000))
    res = {x["id"]: x for x in r.lines.get("RES", [])}
    if len(res) != len(records):
        raise Inconclusive("LangTrace judged %d of %d records" % (len(res), len(records)))
    ctx.traces_validated += len(records)
    return res


_num = re.compile(r"\b[0-9]+\b")
_hex = re.compile(r"0x[0-9a-f]+")
_notcallable = re.compile(r"interface conversion: \S+ is not api\.Callable")


def panic_key(msg):
    """a panic named by its message (numbers and the offending value's type abstracted) and first b6 frame"""
    site = ""
    i = msg.rfind(" @")
    if i >= 0:
        msg, site = msg[:i], msg[i:]
    msg = _hex.sub("0xN", msg)
    msg = _notcallable.sub("interface conversion: T is not api.Callable", msg)
    return "vm-" + _num.sub("N", msg) + site


def first_panic(o):
    if not isinstance(o, dict):
        return None
    if o.get("t") == "panic":
        return o.get("msg", "panic")
    for k in ("a", "b", "r"):
        m = first_panic(o.get(k))
        if m:
            return m
    return None


# ------------------------------------------------------------------ seeded random programs (larger than the exhaustive bound)
class RandGen:
    """Sort-directed random programs: mostly well-typed, with a little noise (wrong arity / sort), nested
    lambdas that re-use the parameter names a, b, c (shadowing), partial applications applied in steps,
    pipelines `x | f` = Call(f, [x]), functions applied with `call`, directly, and through apply1."""

    def __init__(self, rng, queries=False, direct=0.15, noise=0.05):
        self.r = rng
        self.queries = queries
        self.direct = direct
        self.noise = noise
        self.nlit = 0

    def lit(self):
        self.nlit += 1
        return Lit(self.nlit)

    def params_of(self, scope, sort):
        return [n for n, s in scope.items() if s == sort or s == "any"]

    def gen(self, sort, scope, d):
        r = self.r
        if r.random() < self.noise:
            sort = r.choice(["int", "fn1", "pair", "fn2"])
        if sort == "any":
            sort = r.choice(["int", "int", "fn1", "pair", "fn2"])
        ps = self.params_of(scope, sort)
        if ps and r.random() < (0.45 if d > 0 else 0.8):
            return Sym(r.choice(ps))
        if sort == "int":
            return self.gen_int(scope, d)
        if sort == "pair":
            if d <= 0:
                return Call("pair", self.lit(), self.lit())
            return Call("pair", self.gen("any", scope, d - 1), self.gen("int", scope, d - 1))
        if sort == "str":
            return Str(r.choice(["k", "v", "j", "point"]))
        if sort == "query":
            return self.gen_query(scope, d)
        if sort in ("fn1", "fn2", "fn3", "fn0"):
            return self.gen_fn(int(sort[2]), scope, d)
        return self.lit()

    def apply(self, f, args, fsym=None):
        """some way of applying function expression f to args"""
        r = self.r
        x = r.random()
        if fsym is not None and x < 0.5:
            return Call(fsym, *args)
        if x < self.direct and f["k"] in ("lam", "call"):
            return Call(f, *args)
        if len(args) == 1 and args[0]["k"] in ("lit", "sym") and x > 0.9:
            return Call("apply1", f, args[0])
        if len(args) >= 2 and x > 0.75:      # in two steps: partial application binds the trailing arguments
            k = r.randint(1, len(args) - 1)
            inner = Call("call", f, *args[len(args) - k:])
            return Call("call", inner, *args[:len(args) - k])
        return Call("call", f, *args)

    def gen_int(self, scope, d):
        r = self.r
        if d <= 0 or r.random() < 0.15:
            return self.lit()
        x = r.random()
        if x < 0.35:
            n = r.choice(["sub", "sub", "add", "sub3", "neg"])
            return Call(n, *[self.gen("int", scope, d - 1) for _ in range(ARITY[n])])
        if x < 0.5:
            return Call(r.choice(["first", "second"]), self.gen("pair", scope, d - 1))
        if x < 0.6:      # pipeline into a partial application:  x | sub 5
            return Call(Call("sub", self.gen("int", scope, d - 1)), self.gen("int", scope, d - 1))
        if d >= 2 and x < 0.68:
            # a function-maker called twice, the first product used after the second was made:
            #   call {m -> add (call (call m i) j) (call (call m i') j')} {a -> <fn1 using a>}
            m = r.choice(["m", "n"])
            if m not in scope:
                a = self.names(1)[0]
                inner = dict(scope)
                inner[a] = "int"
                maker = Lam([a], self.gen_fn(1, inner, d - 2))
                use = lambda: Call("call", Call("call", Sym(m), self.lit()), self.lit())
                first, second = use(), use()
                body = Call(r.choice(["add", "sub"]), first, second)
                if r.random() < 0.5:   # both made before either is used
                    p, q = "p", "q"
                    body = Call("call", Lam([p, q], Call("add", Call("call", Sym(p), self.lit()), Call("call", Sym(q), self.lit()))),
                                Call("call", Sym(m), self.lit()), Call("call", Sym(m), self.lit()))
                return Call("call", Lam([m], body), maker)
        n = r.choice([1, 1, 2, 2, 3, 0])
        f = self.gen_fn(n, scope, d - 1)
        return self.apply(f, [self.gen("int", scope, d - 1) for _ in range(n)])

    def gen_fn(self, n, scope, d):
        """a function expression expecting n integer arguments and returning an integer"""
        r = self.r
        x = r.random()
        natives = {1: ["neg"], 2: ["sub", "add"], 3: ["sub3"]}.get(n, [])
        if natives and x < 0.15:
            return Sym(r.choice(natives))
        if n == 1 and d > 0 and x < 0.04:     # {c -> applyto c {a -> (f c ..) a}}: the outer parameter in function position inside
            names = self.names(2)
            inner = dict(scope)
            inner[names[0]] = "int"
            inner2 = dict(inner)
            inner2[names[1]] = "int"
            fn = r.choice([Call("sub", Sym(names[0])), Call("sub3", Sym(names[0]), self.gen("int", inner2, 0))])
            return Lam([names[0]], Call("applyto", Sym(names[0]), Lam([names[1]], Call(fn, Sym(names[1])))))
        if n == 1 and d > 0 and x < 0.08:     # a native partial application that holds a closure: applyto {c -> ..}
            names = self.names(1)
            inner = dict(scope)
            inner[names[0]] = "int"
            return Call("applyto", Lam(names, self.gen("int", inner, d - 1)))
        if n in (1, 2) and x < 0.35:      # partial application of a library function
            name = "sub" if n == 1 else "sub3"
            if n == 1 and r.random() < 0.4:
                return Call("sub3", self.gen("int", scope, d - 1), self.gen("int", scope, d - 1))
            return Call(name, self.gen("int", scope, d - 1))
        if d > 0 and x < 0.5:             # a lambda with more parameters, partially applied
            m = n + r.randint(1, 2)
            if m <= 3:
                f = self.gen_fn(m, scope, d - 1)
                return Call("call", f, *[self.gen("int", scope, d - 1) for _ in range(m - n)])
        if d > 0 and x < 0.6:             # a function returning the function
            names = self.names(1)
            inner_scope = dict(scope)
            inner_scope[names[0]] = "int"
            return Call("call", Lam(names, self.gen_fn(n, inner_scope, d - 1)), self.gen("int", scope, d - 1))
        names = self.names(n)
        inner = dict(scope)
        for nm in names:
            inner[nm] = "int"
        if r.random() < 0.15 and n >= 1:  # a higher-order parameter
            inner[names[0]] = "fn1"
        return Lam(names, self.gen("int", inner, max(d - 1, 0)))

    def names(self, n):
        pool = ["a", "b", "c"]
        self.r.shuffle(pool)
        return pool[:n] if n <= 3 else pool

    def gen_query(self, scope, d):
        r = self.r
        x = r.random()
        if d <= 0 or x < 0.2:
            return QLit(r.choice([Keyed("j"), Tagged("k", "w"), And(Keyed("k"), Keyed("j")),
                                  Or(Tagged("j", "v"), And(Keyed("k"), Tagged("j", "w")))]))
        if x < 0.35:
            return Call("keyed", self.gen("str", scope, 0))
        if x < 0.5:
            return Call("tagged", self.gen("str", scope, 0), self.gen("str", scope, 0))
        if x < 0.62:
            return Call("typed", Str(r.choice(["point", "path", "zzz"])), self.gen("query", scope, d - 1))
        if x < 0.85:
            return Call(r.choice(["and", "or"]), self.gen("query", scope, d - 1), self.gen("query", scope, d - 1))
        if x < 0.93:     # pipeline into a partially applied query builder:  q | and q2
            return Call(Call(r.choice(["and", "or"]), self.gen("query", scope, d - 1)), self.gen("query", scope, d - 1))
        names = self.names(1)
        inner = dict(scope)
        inner[names[0]] = r.choice(["query", "str"])
        if inner[names[0]] == "query":
            return self.apply(Lam(names, self.gen("query", inner, d - 1)), [self.gen("query", scope, d - 1)])
        return self.apply(Lam(names, self.gen("query", inner, d - 1)), [self.gen("str", scope, 0)])

    def program(self, maxdepth):
        self.nlit = 0
        sort = self.r.choice(["int", "int", "int", "fn1", "fn2", "pair"] + (["query"] * 6 if self.queries else []))
        return self.gen(sort, {}, self.r.randint(2, maxdepth))


def random_programs(seed, n, maxdepth=4, maxsize=22, queries=False, direct=0.15):
    rng = random.Random(seed)
    g = RandGen(rng, queries=queries, direct=direct)
    out, seen = [], set()
    tries = 0
    while len(out) < n and tries < n * 20:
        tries += 1
        p = g.program(maxdepth)
        if size(p) > maxsize or size(p) < 4:
            continue
        c = canon(p)
        if c in seen:
            continue
        seen.add(c)
        out.append(p)
    return out


# programs written out by hand: the shapes named in the property and in DESIGN.md sections 6 and 10
def named_programs():
    a, b = Sym("a"), Sym("b")
    return [
        Call(Call("sub", Lit(5)), Lit(3)),                                           # 3 | sub 5   = sub 3 5
        Call(Call(Call("sub3", Lit(1)), Lit(2)), Lit(3)),                            # partial applied twice
        Call(Lam(["a"], Call("sub", a, Lit(1))), Lit(9)),                            # 9 | {a -> sub a 1}
        Call("call", Lam(["a"], Call("call", Lam(["a"], a), Lit(4))), Lit(9)),       # shadowing
        Call("call", Lam(["a"], Call("call", Lam(["b"], Call("sub", a, b)), Lit(10))), Lit(20)),
        Call("call", Lam(["a", "b"], Call("sub", b, a)), Lit(1), Lit(2)),            # parameters out of order
        Call("call", Call("call", Lam(["a", "b"], Call("sub", a, b)), Lit(1)), Lit(2)),
        Call(Call("add", Lit(1), Lit(2)), Lit(3)),                                   # 3 | add 1 2: not a function
        Call("call", Call("call", Lam(["b"], Lam(["a"], Call("sub", a, b)))), Lit(7)),
        Call("apply1", Lam(["a"], Call("sub", a, Lit(1))), Lit(5)),
        Call("apply1", Call("sub", Lit(1)), Lit(5)),
        Call("first", Call("pair", Lam(["a"], a), Lit(1))),
        Call("call", Lam([], Lit(5))),
        Call(Lam([], Lit(5))),
        # a partial application made before a lambda is entered and applied inside it: the VM swaps the parameter
        # slots for the partial's snapshot during the call and must put them back
        Call("call", Lam(["b"], Call("call", Lam(["a"], Call("sub", Call("call", b, Lit(2)), a)), Lit(5))), Call("sub", Lit(1))),
        Call("call", Lam(["b"], Call("call", Lam(["a"], Call("sub", Call("call", b, Lit(2)), a)), Lit(5))),
             Call("call", Lam(["b", "a"], Call("sub", b, a)), Lit(1))),
        Call("call", Lam(["a"], Call("pair", Call("apply1", Call("sub", Lit(1)), Lit(2)), a)), Lit(5)),
        # escaping closures: the same lambda literal activated twice, closure of the first activation called later (U1)
        Call("call", Lam(["a"], Call("pair", Call("call", a, Lit(1)), Call("call", a, Lit(2)))),
             Lam(["b"], Lam(["a"], Call("sub", a, b)))),
        # native partial applications holding a closure, made twice by the same maker and completed afterwards:
        # each reads ITS OWN `a` through the snapshot it took when it was made
        Call("call", Lam(["m"], Call("call", Lam(["p", "q"], Call("add", Call("call", Sym("p"), Lit(1)), Call("call", Sym("q"), Lit(2)))),
                                     Call("call", Sym("m"), Lit(3)), Call("call", Sym("m"), Lit(4)))),
             Lam(["a"], Call("applyto", Lam(["c"], Call("sub", Call("add", Sym("c"), Sym("c")), a))))),
        Call("call", Lam(["m"], Call("sub", Call("call", Call("call", Sym("m"), Lit(1)), Lit(2)),
                                     Call("call", Call("call", Sym("m"), Lit(3)), Lit(4)))),
             Lam(["a"], Call("applyto", Lam(["c"], Call("sub3", Sym("c"), a, Sym("c")))))),
        Call("call", Lam(["m"], Call("call", Lam(["p", "q"], Call("pair", Call("call", Sym("q"), Lit(1)), Call("call", Sym("p"), Lit(2)))),
                                     Call("call", Sym("m"), Lit(3)), Call("call", Sym("m"), Lit(4)))),
             Lam(["a"], Call("sub3", a, Lit(5)))),
    ]
