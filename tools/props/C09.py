"""C09 -- low-level binary containers are lossless.

Spec: Store.tla (abstract store key -> sequence of items; protocols reserve/finish/write/read and append/read).
TLC enumerates every behaviour (reserve order, finish mode, write order, key/tag configuration; every sequence
of value classes / string classes) and exports the final abstract store; harness/cmd/vh-store executes each
behaviour on the real builders and readers of package encoding and compares what is read with the store."""
import itertools
import random

from vlib import Inconclusive, canon

META = {
    "engine": "store",
    "level": "model_checking",
    "text": "Store.tla is model-checked exhaustively (every reserve/finish/write order of <= 3 (quick) / <= 5 (thorough) "
            "entries over <= 3 keys and 2 tags; every sequence of <= 4 / <= 5 value classes; every sequence of <= 4 / <= 5 "
            "string classes) and EVERY finished behaviour TLC generates is executed on the real ByteArraysBuilder, "
            "Uint64MapBuilder (all layouts bucketBits 1..4 x tagBits {0,2}), StringTableBuilder and integer coders; what is "
            "read back (Item, FindFirst, FindFirstWithTag, FillTagged, Begin/Next, EachItem with 1..4 goroutines) is "
            "compared with the abstract store; maps of thousands of entries over 2-8 buckets written by 4-16 goroutines "
            "concurrently must read back as the store whatever the interleaving.",
    "note": "Weakest fit of the family (DESIGN section 7): the spec contributes the structure of the input space (orders, key "
            "configurations, value classes) and the oracle 'same as the abstract store'; byte equality is judged in Go. "
            "Small scope: <= 5 entries, item sizes from 7 classes (0,1,3,4,251,252,65280 bytes: totals cross the 1->2->3 "
            "byte offset boundaries), 64-bit values by class (zero, one, small, bit31, bit32, bit62, bit63, max) with the "
            "class minimum, maximum and a seeded random member. Per-ID entry order in Uint64Map is unspecified: compared as "
            "multisets. The EachItem callback never fails here (C28). Trusted: TLC, the Go adapter.",
    "technique": "TLA+ spec (Store) + TLC exhaustive; every finished behaviour replayed on the real encoding containers",
}

INT_CLASSES = ["zero", "one", "small", "bit31", "bit32", "bit62", "bit63", "max"]
SINGLETON = {"zero", "one", "max"}
SIZES = ["z", "a", "b", "f", "c", "e", "d"]
# size vectors whose totals sit on the offset-width boundaries: 255 / 256 / 65535 / 65536 bytes
BOUNDARY = {1: [["c"], ["e"], ["d"]],
            2: [["c", "f"], ["e", "f"], ["d", "c"], ["d", "e"]],
            3: [["c", "b", "a"], ["e", "b", "a"], ["d", "c", "f"], ["d", "e", "f"]],
            4: [["c", "b", "a", "z"], ["c", "b", "a", "a"], ["d", "c", "b", "a"], ["d", "e", "b", "a"]],
            5: [["c", "b", "a", "z", "z"], ["c", "b", "a", "a", "z"], ["d", "c", "b", "a", "z"], ["d", "c", "b", "a", "a"]]}


def key_class_tuples(n):
    out = []
    for t in itertools.product(INT_CLASSES, repeat=n):
        s = [c for c in t if c in SINGLETON]
        if len(s) == len(set(s)):
            out.append(list(t))
    return out


def register(ctx, verdicts, cases):
    """count verdicts; a verdict may carry several distinct failures (obs.failures)."""
    harness = []
    for v in verdicts:
        ctx.evaluations += 1
        for k, n in (v.get("stats") or {}).items():
            ctx.extra_cov[k] = ctx.extra_cov.get(k, 0) + n
        if v.get("ok"):
            continue
        fl = (v.get("obs") or {}).get("failures") if isinstance(v.get("obs"), dict) else None
        if not fl:
            fl = [{"key": v.get("key") or "unknown", "what": v.get("msg", "")}]
        for f in fl:
            if str(f["key"]).startswith("harness"):
                harness.append(f["what"])
                continue
            ctx.fail(f["key"], f["what"], {"case": cases[v["id"]], "verdict": {k: v.get(k) for k in ("key", "msg")}})
    return harness


def run(ctx):
    rng = random.Random(ctx.seed)
    binary = ctx.go_build("vh-store")
    harness_errors = []

    # ---- the three model-checking runs (each prints one CASE per finished behaviour)
    kv = ctx.tlc("Store", ctx.pick("StoreKV.cfg", "StoreKVBig.cfg"), timeout=2400, workers=4)
    hist = kv.lines.get("CASE", [])
    if not ctx.quick:
        # 5 entries with a single tag (the 2-tag space is covered up to 4 entries)
        kv5 = ctx.tlc("Store", "StoreKV5.cfg", timeout=2400, workers=4)
        seen = {canon(h) for h in hist}
        hist += [h for h in kv5.lines.get("CASE", []) if canon(h) not in seen]
    sq = ctx.tlc("Store", ctx.pick("StoreSeq.cfg", "StoreSeqBig.cfg"), timeout=1200, workers=4)
    seqs = sq.lines.get("CASE", [])
    st = ctx.tlc("Store", ctx.pick("StoreStrings.cfg", "StoreStringsBig.cfg"), timeout=1200, workers=4)
    strs = st.lines.get("CASE", [])
    if len(hist) < 2000 or len(seqs) < 4000 or len(strs) < 1000:
        raise Inconclusive("behaviour export too small: %d %d %d" % (len(hist), len(seqs), len(strs)))
    empty = {"entries": [], "res": [], "fin": "no", "wr": [], "store": []}

    # ---- (i) integer sequences: every class sequence x {class minimum, maximum, random member} (rotating per position)
    cases = []
    for s in [empty] + seqs:
        for variant in range(3):
            c = dict(s)
            c.update(id=len(cases), variant=variant)
            cases.append(c)
        ctx.distinct_cases.add("ints " + canon([e["g"] for e in s["entries"]]))
    ctx.sample({"adapter": "ints", "case": cases[len(cases) // 2]})
    harness_errors += register(ctx, ctx.run_cases(binary, "ints", cases, name="ints"), cases)
    n_ints = len(cases)

    # ---- (iii) string table
    cases = []
    for s in [empty] + strs:
        for off in (0, 42):
            c = dict(s)
            c.update(id=len(cases), offset=off)
            cases.append(c)
        ctx.distinct_cases.add("strings " + canon([e["g"] for e in s["entries"]]))
    ctx.sample({"adapter": "strings", "case": cases[len(cases) // 3]})
    harness_errors += register(ctx, ctx.run_cases(binary, "strings", cases, name="strings"), cases)

    # ---- (ii) byte arrays: behaviours with a single tag (tags do not exist there) x item sizes
    cases = []
    plain = [h for h in hist if all(e["g"] == 0 for e in h["entries"])]
    nrand = ctx.pick(5, 12)
    for h in plain:
        n = len(h["entries"])
        vecs = [list(v) for v in BOUNDARY[n]]
        for _ in range(nrand):
            vecs.append([rng.choice(SIZES[:-1] if rng.random() < 0.8 else SIZES) for _ in range(n)])
        for j, sizes in enumerate(vecs):
            c = dict(h)
            c.update(id=len(cases), sizes=sizes, items=len(h["store"]) + (j % 3), offset=(0, 42, 1)[j % 3],
                     merge=(j % 4 == 1), split=1 + j % 3)
            cases.append(c)
        ctx.distinct_cases.add("bytes " + canon([h["entries"], h["res"], h["fin"], h["wr"]]))
    ctx.sample({"adapter": "bytes", "case": cases[len(cases) // 2]})
    harness_errors += register(ctx, ctx.run_cases(binary, "bytes", cases, name="bytes"), cases)
    n_bytes = len(cases)

    # ---- (iv) uint64 map: every behaviour x every layout x ID classes (all class tuples are cycled through)
    cases = []
    tuples = {n: key_class_tuples(n) for n in (1, 2, 3)}
    for n in tuples:
        rng.shuffle(tuples[n])
    cursor = {1: 0, 2: 0, 3: 0}
    layouts = [(b, t) for b in (1, 2, 3, 4) for t in (0, 2)]
    per = ctx.pick(1, 2)
    for hi, h in enumerate(hist):
        n = len(h["entries"])
        tagged = any(e["g"] != 0 for e in h["entries"])
        ls = [l for l in layouts if l[1] == 2 or not tagged]
        nk = len(h["store"])
        for (b, t) in ls:
            for r in range(per):
                kc = tuples[nk][cursor[nk] % len(tuples[nk])]
                cursor[nk] += 1
                sizes = [rng.choice(SIZES[:-1] if rng.random() < 0.9 else SIZES) for _ in range(n)]
                c = dict(h)
                c.update(id=len(cases), b=b, t=t, keyclass=kc, samelow=bool((hi + r + b) % 2), sizes=sizes,
                         offset=(0, 42)[(hi + r) % 2], variant=(hi + r) % 4)
                cases.append(c)
        ctx.distinct_cases.add("map " + canon([h["entries"], h["res"], h["fin"], h["wr"]]))
    for n in tuples:
        if cursor[n] < len(tuples[n]):
            ctx.note("only %d of %d ID-class tuples of length %d used" % (cursor[n], len(tuples[n]), n))
    ctx.sample({"adapter": "map", "case": cases[len(cases) // 2]})
    ctx.sample({"adapter": "map", "case": cases[7]})
    harness_errors += register(ctx, ctx.run_cases(binary, "map", cases, name="map", timeout_ms=60000), cases)

    # the builder is written by several goroutines at once in the compact build: many entries over few buckets,
    # written concurrently, must give the same map as the abstract store whatever the interleaving
    ccases = [{"id": i, "b": b, "t": t, "n": n, "g": g}
              for i, (b, t, n, g) in enumerate([(1, 0, 4000, 8), (1, 2, 4000, 8), (2, 2, 6000, 16), (3, 0, 3000, 4)] * ctx.pick(2, 10))]
    harness_errors += register(ctx, ctx.run_cases(binary, "mapconc", ccases, name="mapconc", timeout_ms=120000), ccases)

    # long pointer tables: hundreds to thousands of items with pointers of 1, 2, 3 and 4 bytes
    bcases = [{"id": i, "n": n, "size": size, "offset": off}
              for i, (n, size, off) in enumerate([(200, 1, 0), (400, 3, 7), (1000, 40, 0), (2000, 40, 42), (342, 200, 0),
                                                  (341, 200, 0), (3000, 30, 1), (700, 25000, 0), (5000, 4, 0)])]
    harness_errors += register(ctx, ctx.run_cases(binary, "bytesbig", bcases, name="bytesbig", timeout_ms=120000), bcases)

    ctx.traces_validated = len(hist) + len(seqs) + len(strs)
    ctx.extra_cov["behaviours_kv"] = len(hist)
    ctx.extra_cov["behaviours_int_sequences"] = len(seqs)
    ctx.extra_cov["behaviours_string_sequences"] = len(strs)
    ctx.extra_cov["cases_ints"] = n_ints
    ctx.extra_cov["cases_bytes"] = n_bytes
    ctx.extra_cov["cases_map"] = len(cases)
    if harness_errors:
        raise Inconclusive("harness errors: " + "; ".join(harness_errors[:3]))
    return ctx.finish(
        "model_checking",
        rule="TLC enumerates every behaviour of Store.tla within the constants (kv: every canonical key/tag configuration "
             "of 1..N entries, every reserve order, explicit/implicit finish, every write order; seq: every sequence of value "
             "classes / string classes up to the length bound) and prints the final abstract store of each; every behaviour "
             "is executed on the real containers: integer sequences x 3 concretisations of the classes, string tables x 2 "
             "offsets, byte arrays x (4 boundary size vectors + seeded random size vectors, extra empty items, merged "
             "reservations, split writes), maps x all layouts bucketBits 1..4 x tagBits {0,2} x ID-class tuples. "
             "traces = behaviours replayed; distinct = distinct (container kind, behaviour).",
        assumptions=["every reserved chunk is written exactly once with the reserved length (under-filled reservations are not specified)",
                     "per-ID entry order of Uint64Map is unspecified: multisets are compared; FindFirst may return any entry of the ID",
                     "the EachItem callback never fails (a failing callback is property C28)",
                     "string-table frequency ordering is not part of the property; only id <-> string bijection is checked",
                     "values are concretised from classes: class minimum, maximum, seeded random member"],
        exhaustive=True)
