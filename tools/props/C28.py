"""C28 -- a callback error stops streaming and is reported.

Specs: StreamsEachItem / StreamsMemSource / StreamsPBF / StreamsErrgroup (+ StreamsBase), one protocol model per
function, each with a switch (cfg.fixed) between the protocol before the repairs fixes/C28-*.diff and the code as it
stands.  Binding B': TLC computes,
for every configuration (goroutines, unit sizes, failing items, callback behaviour), the set of observable
outcomes; every configuration is executed on the real API (worker child process, watchdog) under seeded schedule
perturbation and judged (a) against the property itself: returns, non-nil iff a callback failed, promptly, and
(b) for membership in the model's outcome set.
"""
import os
import random
from concurrent.futures import ThreadPoolExecutor

from vlib import Inconclusive, canon

META = {
    "engine": "streams",
    "level": "model_checking",
    "text": "Each streaming function is transcribed into a small TLA+ protocol model (one action per channel / lock / "
            "WaitGroup / errgroup operation). TLC checks the repaired protocols exhaustively over goroutines 1..2 (thorough: "
            "1..3), <= 4 (thorough: 5) units, every failing subset up to size 2 and three callback behaviours: no reachable hang, "
            "error returned iff a callback failed, termination under weak fairness. The models of the protocols before "
            "the repairs (commits 77e226d, 3f18754, dd16412) violate these (TLC witnesses = candidates). Every configuration TLC explored is then executed on "
            "the real function under seeded yield/sleep perturbation in a crash/hang-isolated child process and the "
            "observed (returned/err/hang, delivered set) must satisfy the property and be an outcome of the model.",
    "note": "Small scope for the exhaustive part; larger inputs (hundreds of items, 1-4 goroutines) and the world "
            "enumerations are judged by the property's rule only. Schedules of the real code are sampled "
            "(perturbation in the callback and, for PBF, in the io.Reader), not enumerated: no hook/gate points are "
            "used. 'Promptly' is made measurable, generously, on inputs of n >= 100 items: at most 3*g+40+n/4 callbacks may "
            "START after a failing callback has returned (callbacks started after the failure are slowed to 2 ms so "
            "that scheduling noise cannot explain more; the defects found deliver all n remaining items). Trusted: TLC, the Go harness (watchdog = nothing moved for 300 ms and two goroutine dumps show "
            "every b6 goroutine parked at the same place).",
    "technique": "TLA+ protocol models (Streams*) + TLC safety/liveness + outcome sets; outcome membership of real runs",
}

MODULES = {
    # module              variant constant  instances bound to it
    "StreamsEachItem": ("Fixed", ["eachitem"]),
    "StreamsMemSource": ("Fixed", ["memsource"]),
    "StreamsPBF": ("Fixed", ["pbf"]),
    "StreamsErrgroup": ("SelectDone", ["ingest", "modtags"]),
}
WORLDS = ["world-basic", "world-mutable", "world-mutoverlay", "world-overlay", "world-tagsoverlay", "world-compact"]


def cfg_text(tier, asis=False):
    """spec/<Module>.cfg (quick) and <Module>AsIs.cfg are files; the thorough bounds are generated."""
    quick = tier == "quick"
    s = "SPECIFICATION Spec\nCONSTANTS\n  MaxG = %d\n  SizeVecs <- %s\n  MaxFail = %d\n" % (
        2 if quick else 3, "QuickSizes" if quick else "ThoroughSizes", 2)
    s += '  Modes = {"item", "once", "sticky"}\n'
    s += "  Variants = {FALSE}\n  JudgeAll = TRUE\n" if asis else "  Variants = {TRUE, FALSE}\n  JudgeAll = FALSE\n"
    return s + "INVARIANT NoHang ReportsError Complete NoSecondCall\nPROPERTY Terminates\nCHECK_DEADLOCK FALSE\n"


def okey(o):
    return "%s|%s|%s" % (o["ret"], ",".join(map(str, sorted(o["delivered"]))), ",".join(map(str, sorted(o["twice"]))))


def ckey(o):
    return canon([o["g"], o["sizes"], sorted(o["fail"]), o["mode"]])


def run_cases_retrying(ctx, binary, adapter, cases, timeout_ms, total_timeout):
    """The adapter's watchdog classifies hangs from goroutine dumps.  The runtime's per-case deadline is only a
    backstop, and on a starved machine it can fire on a healthy case: such cases are run again, alone and with a
    longer deadline, before they count."""
    vs = ctx.run_cases(binary, adapter, cases, timeout_ms=timeout_ms, total_timeout=total_timeout)
    late = [v["id"] for v in vs if v.get("key") == "timeout"]
    if late:
        ctx.note("%d case(s) hit the runtime deadline; re-running them alone" % len(late))
        again = ctx.run_cases(binary, adapter, [cases[i] for i in late], workers=2, timeout_ms=4 * timeout_ms,
                              total_timeout=total_timeout, name="retry")
        byid = {v["id"]: v for v in again}
        vs = [byid.get(v["id"], v) for v in vs]
    return vs


def run(ctx):
    import time
    quick = ctx.quick
    t0 = time.time()
    binary = ctx.go_build("vh-streams")

    # ------------------------------------------------------------------ 1. model checking (parallel JVMs)
    t1 = time.time()
    # one JVM per module: both variants (cfg.fixed) in one state space, the design properties judged on the repaired
    # one; plus one small run per module on the protocol before the repair with the properties judged on it (JudgeAll):
    # TLC must report a violation there (the candidates; also guards against vacuous properties)
    os.environ.setdefault("JAVA_TOOL_OPTIONS", "-XX:ParallelGCThreads=2 -XX:TieredStopAtLevel=1")
    jobs = []
    for mod in MODULES:
        jobs.append((mod, "both", dict(cfg=(mod + ".cfg") if quick else None,
                                       cfg_text=None if quick else cfg_text("thorough"))))
        jobs.append((mod, "asis", dict(cfg=mod + "AsIs.cfg", expect_violation=True)))
    sdirs = {(m, v): ctx.specdir() for m, v, _ in jobs}
    compact_file = os.path.join(ctx.work, "compact-150.idx")

    def tlc_job(job):
        mod, variant, kw = job
        return job, ctx.tlc(mod, workers=2, heap="2g", sdir=sdirs[(mod, variant)], quiet=True, timeout=1200,
                            count=(variant == "both"), **kw)

    def compact_job():
        return ctx.run_tool(binary, ["build-compact", "--n", "150", "--out", compact_file], timeout=2400)

    with ThreadPoolExecutor(max_workers=9) as ex:
        cf = ex.submit(compact_job)
        results = list(ex.map(tlc_job, jobs))
        cf.result()
    ctx.note("model checking + compact index: %.1fs (build %.1fs before)" % (time.time() - t1, t1 - t0))
    after, before = {}, {}          # inst-module -> config key -> set of outcome keys
    configs = {}                    # module -> config key -> config
    for (mod, variant, _), r in results:
        print("tlc %s %s: generated=%d distinct=%d ok=%s violated=%s wall=%.1fs" % (
            mod, variant, r.generated, r.distinct, r.ok, r.violated, r.wall), flush=True)
        if variant == "both" and not r.ok:
            raise Inconclusive("TLC did not complete on %s" % mod)
        if variant == "asis":
            # the model of the protocol before the repair (Errgroup: of the send-without-Done variant) must violate the design
            if not r.violated:
                raise Inconclusive("%s AsIs: TLC found no violation in the model of the defective protocol "
                                   "(vacuous properties?)" % mod)
            ctx.note("%s, protocol before the repair: TLC reports %s violated" % (mod, r.violated))
            continue
        outs = r.lines.get("OUTCOME", [])
        if not outs:
            raise Inconclusive("no OUTCOME lines from %s" % mod)
        for o in outs:
            dst = (after if o["fixed"] else before).setdefault(mod, {})
            dst.setdefault(ckey(o), set()).add(okey(o))
            configs.setdefault(mod, {})[ckey(o)] = o
        if any(o["ret"] == "hang" and o["fixed"] for o in outs):
            raise Inconclusive("repaired model %s has a hang outcome" % mod)
    for mod in MODULES:
        if set(after[mod]) != set(before[mod]):
            raise Inconclusive("%s: before/after models explored different configurations" % mod)
    candidates = {mod: sorted(k for k, s in before[mod].items() if any(x.startswith("hang|") or x.startswith("nil|") and
                                                                      configs[mod][k]["fail"] for x in s)
                              and mod != "StreamsErrgroup") for mod in MODULES}
    ctx.extra_cov["tlc_candidate_configs"] = {m: len(v) for m, v in candidates.items()}
    ctx.extra_cov["configs_per_model"] = {m: len(v) for m, v in after.items()}

    # ------------------------------------------------------------------ 2. cases for the real code
    rng = random.Random(ctx.seed)
    cases = []
    reps = ctx.pick(2, 4)
    quiet_ms = ctx.pick(300, 500)

    def add(c):
        c["id"] = len(cases)
        c.setdefault("quiet_ms", quiet_ms)
        cases.append(c)

    for mod, (const, insts) in MODULES.items():
        for k in sorted(after[mod]):
            o = configs[mod][k]
            # Errgroup: the "before" model is a hypothetical variant, not the code: only its own outcomes are allowed
            b = sorted(before[mod][k]) if mod != "StreamsErrgroup" else []
            for inst in insts:
                ordinal = False
                if inst == "modtags":
                    # Go map iteration order: items can only be named by invocation ordinal, which is the feed
                    # order when there is one worker
                    if o["g"] != 1:
                        continue
                    ordinal = True
                for rep in range(reps):
                    add({"inst": inst, "g": o["g"], "sizes": o["sizes"], "fail": sorted(o["fail"]), "mode": o["mode"],
                         "ordinal": ordinal, "seed": rng.randrange(1 << 30), "perturb": [1, 3, 2, 0, 3, 1][rep % 6],
                         "model": True, "after": sorted(after[mod][k]), "before": b})
    nmodel = len(cases)

    # larger inputs and the world enumerations: judged by the property's rule (incl. promptness)
    def rule_cases(inst, n, gs, sizes=None, modes=("item", "sticky", "once"), prompt=True, reps=1, **extra):
        sizes = sizes or [1] * n
        fails = [[], [1], [n], [max(1, n // 2)], [1, 2], list(range(1, n + 1))]
        for g in gs:
            for f in fails:
                for mode in (modes if f else ("item",)):
                    for rep in range(reps):
                        c = {"inst": inst, "g": g, "sizes": sizes, "fail": f, "mode": mode, "ordinal": False,
                             "seed": rng.randrange(1 << 30), "perturb": [2, 1, 3][rep % 3], "model": False}
                        if prompt and n >= 100:
                            c["prompt"] = 3 * g + 40 + n // 4
                            c["slow_us"] = 2000
                        c.update(extra)
                        add(c)

    gs = ctx.pick([1, 2, 4], [1, 2, 3, 4, 8])
    r2 = ctx.pick(1, 3)
    rule_cases("eachitem", 256, gs, reps=r2)
    rule_cases("eachitem", 128, gs, sizes=[2] * 64, reps=r2)
    rule_cases("memsource", 300, gs, reps=r2)
    rule_cases("pbf", 60, gs, sizes=[0] + [1] * 60, reps=r2)
    rule_cases("pbf", 120, gs, sizes=[0] + [3] * 40, reps=r2)
    rule_cases("ingest", 100, gs, reps=r2)
    rule_cases("modtags", 300, gs, reps=r2)
    for w in WORLDS:
        if w == "world-compact":
            rule_cases(w, 150, gs, reps=r2, file=compact_file)
        else:
            rule_cases(w, 7, [1, 2, 3], reps=r2)
            rule_cases(w, 200, gs, reps=r2)
    ctx.sample({k: v for k, v in cases[nmodel // 3].items()})
    ctx.sample({k: v for k, v in cases[nmodel + 5].items()})
    for mod in MODULES:
        if candidates[mod]:
            ctx.sample({"tlc_witness_config": configs[mod][candidates[mod][0]], "model": mod})

    # ------------------------------------------------------------------ 3. execute and judge
    t2 = time.time()
    vs = run_cases_retrying(ctx, binary, "stream", cases, ctx.pick(30000, 40000), ctx.pick(1500, 3000))
    ctx.note("%d cases on the real code: %.1fs" % (len(cases), time.time() - t2))
    # the runtime's own deadline is the backstop for a hang the watchdog did not classify: name it like one
    for v in vs:
        c = cases[v["id"]]
        if v.get("key") == "timeout":
            v["key"] = "%s:hang:%s" % (c["inst"], c["mode"] if c["fail"] else "nofail")
            v["msg"] = "%s g=%d sizes=%s fail=%s mode=%s: %s" % (c["inst"], c["g"], c["sizes"], c["fail"], c["mode"], v.get("msg"))
    ctx.absorb(vs, case_of=lambda i: {k: v for k, v in cases[i].items() if k not in ("after", "before")})
    reproduced = {}
    for v in vs:
        c = cases[v["id"]]
        ctx.distinct_cases.add(canon([c["inst"], c["g"], c["sizes"], c["fail"], c["mode"]]))
        if c["model"] and not v.get("ok") and (":hang:" in v.get("key", "") or ":nil-on-failure:" in v.get("key", "")):
            reproduced.setdefault(c["inst"], set()).add(canon([c["g"], c["sizes"], c["fail"], c["mode"]]))
    ctx.extra_cov["tlc_candidates_reproduced_on_real_code"] = {k: len(v) for k, v in reproduced.items()}
    ctx.traces_validated = ctx.extra_cov.get("outcome_in_model", 0)

    # ------------------------------------------------------------------ 4. binding self-test (thorough)
    if not quick:
        probe = []
        for c in cases[:nmodel:max(1, nmodel // 40)]:
            d = dict(c)
            d["id"] = len(probe)
            d["after"], d["before"] = ["err|9999|"], []
            probe.append(d)
        pv = ctx.run_cases(binary, "stream", probe, timeout_ms=20000, name="selftest")
        if any(v.get("ok") for v in pv):
            raise Inconclusive("binding self-test: a case with a corrupted expected outcome set was accepted")
        ctx.note("binding self-test: %d cases with corrupted outcome sets were all rejected" % len(pv))

    return ctx.finish(
        "model_checking",
        rule="TLC enumerates every configuration (goroutines x unit-size vector x failing subset x callback behaviour) of "
             "four protocol models and all their interleavings; each configuration is run on the real function "
             "(EachItem, MemoryFeatureSource.Read, ReadPBFWithOptions, eachIngestFeature via the basic world, "
             "EachModifiedTag) several times with different seeded perturbations; larger inputs and EachFeature of the "
             "basic, mutable, mutable-overlay, overlay, tags-overlay and compact worlds are run with no / first / last / "
             "middle / two / all items failing. distinct = distinct (instance, goroutines, sizes, failing set, mode).",
        assumptions=["callbacks fail by item identity ('item'), only the first time ('once'), or from the first failure "
                     "on ('sticky'); other callback behaviours are not explored",
                     "'promptly' (n >= 100 items) = at most 3*goroutines+40+n/4 callbacks start after a failing callback "
                     "returned (uniform random select makes any bound probabilistic: < 2^-40)",
                     "an error from the reader/source itself (as opposed to the callback) is out of scope",
                     "schedules of the real code are sampled by perturbation, not enumerated"],
        exhaustive=False)
