"""Shared by C06 and C08 (family: iter).  Spec: SortedIter.tla / MCSortedIter.tla / TraceSortedIter.tla,
harness: harness/cmd/vh-iter.

Binding A: TLC exports (i) the query trees (QUERIES) and one DENS line per index content with the denotation of every
query, and (ii) the cursor graph of every denotation (EDGE lines); the Go adapter compiles every query with the real code on real indices and
executes every call sequence of the graph up to a depth, judging every call against the graph.
Binding B: random real runs recorded by `vh-iter drive`, judged by TLC (TraceSortedIter.tla)."""
import json
import os
import random

from vlib import canon, Inconclusive

TWO63 = 1 << 63
MAXU = (1 << 64) - 1
NS_A = "a.verif/x"
NS_D = "diagonal.works/ns/verif"
NS_M = "m.verif/y/z"
NS_N = "openstreetmap.org/node"
NS_W = "openstreetmap.org/way"
NS_Z = "zz.verif"
POINT, PATH, AREA, RELATION, COLLECTION = 0, 1, 2, 3, 5


# ------------------------------------------------------------------------------------------------ model
def strip(q):
    """query tree without annotations, canonical"""
    k = q["k"]
    if k == "all":
        return {"k": "all", "t": q["t"]}
    if k == "empty":
        return {"k": "empty"}
    if k == "prefix":
        return {"k": "prefix", "p": q["p"]}
    if k in ("union", "inter"):
        return {"k": k, "qs": [strip(c) for c in q["qs"]]}
    if k == "range":
        return {"k": "range", "b": q["b"], "e": q["e"], "q": strip(q["q"])}
    raise Exception("unknown query kind %r" % (k,))


def qsize(q):
    k = q["k"]
    if k in ("union", "inter"):
        return 1 + sum(qsize(c) for c in q["qs"])
    if k == "range":
        return 1 + qsize(q["q"])
    return 1


def qstr(q):
    k = q["k"]
    if k == "all":
        return "all:" + q["t"]
    if k == "empty":
        return "empty"
    if k == "prefix":
        return "prefix:%r" % q["p"]
    if k in ("union", "inter"):
        return "%s(%s)" % (k, ", ".join(qstr(c) for c in q["qs"]))
    return "range[%d,%d)(%s)" % (q["b"], q["e"], qstr(q["q"]))


def mask(d):
    m = 0
    for r in d:
        m |= 1 << r
    return m


def dkey(d):
    return ",".join(str(x) for x in sorted(d))


class Model:
    """What one TLC run of (MC)SortedIter exported."""

    def __init__(self, run):
        qlines = run.lines.get("QUERIES", [])
        dens = run.lines.get("DENS", [])
        edges = run.lines.get("EDGE", [])
        if len(qlines) != 1 or not dens or not edges:
            raise Inconclusive("TLC exported no QUERIES/DENS/EDGE lines")
        qseq = [strip(q) for q in qlines[0]]
        # canonical order: by size, then text (independent of TLC's enumeration order)
        order = sorted(range(len(qseq)), key=lambda i: (qsize(qseq[i]), canon(qseq[i])))
        self.queries = [qseq[i] for i in order]     # annotated below
        self.qindex = {canon(q): i for i, q in enumerate(self.queries)}
        if len(self.qindex) != len(self.queries):
            raise Inconclusive("duplicate queries exported")
        for q in self.queries:
            self._annotate(q)
        self.indices = {}          # canon(idx) -> idx
        self.dens = {}             # canon(idx) -> [mask per query]
        for c in dens:
            idx = {t: sorted(v) for t, v in c["idx"].items()}
            ik = canon(idx)
            if len(c["ds"]) != len(qseq):
                raise Inconclusive("DENS line with %d denotations for %d queries" % (len(c["ds"]), len(qseq)))
            self.indices[ik] = idx
            self.dens[ik] = [mask(c["ds"][i]) for i in order]
        # cursor graphs: dkey -> sorted list of [from, op, k, ok, v]
        g = {}
        for e in edges:
            frm, ev, to = e["from"], e["ev"], e["to"]
            f = -1 if frm["st"] == "fresh" else frm["v"]
            if frm["st"] == "done":
                raise Inconclusive("the spec generated a call after exhaustion")
            want_to = {"st": "at", "v": ev["v"]} if ev["ok"] else {"st": "done", "v": 0}
            if to != want_to:
                raise Inconclusive("EDGE line inconsistent: %r" % (e,))
            row = (f, 0 if ev["op"] == "next" else 1, ev["k"], 1 if ev["ok"] else 0, ev["v"])
            g.setdefault(dkey(e["d"]), set()).add(row)
        self.graph = {k: sorted(list(r) for r in v) for k, v in g.items()}
        # the graph of d must be deterministic and complete for every denotation that occurs
        for k, rows in self.graph.items():
            seen = set()
            for r in rows:
                key = (r[0], r[1], r[2])
                if key in seen:
                    raise Inconclusive("nondeterministic cursor graph for d=%s" % k)
                seen.add(key)
        need = set()
        for ik, ds in self.dens.items():
            for m in ds:
                need.add(m)
        for m in need:
            d = [r for r in range(64) if m >> r & 1]
            if dkey(d) not in self.graph:
                raise Inconclusive("no cursor graph exported for denotation %s" % d)
        self.edges = sum(len(v) for v in self.graph.values())

    def _annotate(self, q):
        key = canon(strip(q))
        if key in self.qindex:
            q["i"] = self.qindex[key]
        if q["k"] in ("union", "inter"):
            for c in q["qs"]:
                self._annotate(c)
        elif q["k"] == "range":
            self._annotate(q["q"])

    def write(self, path):
        with open(path, "w") as f:
            json.dump({"queries": self.queries, "graph": self.graph}, f, separators=(",", ":"))
        return path

    def sub_model(self, qi, idx_key):
        """A self-contained model for one query (replay files): the query, the sub-queries TLC knows, their
        denotations over one index, and the graphs those denotations need."""
        nodes = []

        def collect(q):
            if "i" in q:
                nodes.append(q["i"])
            if q["k"] in ("union", "inter"):
                for c in q["qs"]:
                    collect(c)
            elif q["k"] == "range":
                collect(q["q"])
        collect(self.queries[qi])
        order = [qi] + sorted(set(nodes) - {qi})
        remap = {old: new for new, old in enumerate(order)}

        def rewrite(q):
            out = dict(q)
            if "i" in out:
                out["i"] = remap[out["i"]]
            if q["k"] in ("union", "inter"):
                out["qs"] = [rewrite(c) for c in q["qs"]]
            elif q["k"] == "range":
                out["q"] = rewrite(q["q"])
            return out
        queries = [rewrite(self.queries[i]) for i in order]
        dens = [self.dens[idx_key][i] for i in order]
        keys = set()
        for m in dens:
            keys.add(dkey([r for r in range(64) if m >> r & 1]))
        for toks in self.indices[idx_key].values():   # posting lists are monitored against their own graphs
            keys.add(dkey(toks))
        graph = {k: self.graph[k] for k in keys if k in self.graph}
        return {"queries": queries, "graph": graph}, dens


# ------------------------------------------------------------------------------------------------ tables
def table(entries):
    """entries: (type, ns, value) strictly increasing; returns the JSON form [type, ns, "value"]."""
    prev = None
    out = []
    for t, ns, v in entries:
        assert 0 <= v <= MAXU
        key = (t, ns, v)
        assert prev is None or prev < key, "table not increasing: %r %r" % (prev, key)
        prev = key
        out.append([t, ns, str(v)])
    return out


def c06_profiles(n):
    """Concretisation tables for n ranks (0..n-1) for the query-tree checks."""
    small = table([(POINT, NS_A, 10 * (r + 1)) for r in range(n)])
    wide = table([(RELATION, "openstreetmap.org/relation", 5 + r * (1 << 57)) for r in range(n)])
    # (type, namespace) changes between ranks: posting lists span several namespaces, Advance targets fall
    # into namespaces a list does not contain; values 0, 2^63.., 2^64-1
    g = [(POINT, NS_A, 7), (POINT, NS_A, TWO63 + 9), (POINT, NS_M, 0), (PATH, NS_A, 300), (PATH, NS_M, 1 << 35),
         (AREA, NS_M, MAXU), (COLLECTION, NS_D, 1), (COLLECTION, NS_D, 2)]
    if n == 5:
        g = g[:4] + [g[5]]
    groups = table(g[:n]) if n != 5 else table(g)
    return {"small": small, "groups": groups, "wide": wide}


# ------------------------------------------------------------------------------------------------ signatures
def group_of(tab, r):
    return "%d/%s" % (tab[r][0], tab[r][1])


def symptom(cur, got, want, d):
    """cur: None fresh, else rank.  got/want: dicts ok,v.  Mirrors vh-iter/main.go:symptom."""
    at = cur is not None
    if not got["ok"] and want["ok"]:
        return "early-end"
    if got["ok"] and got["v"] < 0:
        return "value-not-in-table"
    if got["ok"] and at and got["v"] == cur and not (want["ok"] and want["v"] == cur):
        return "repeat"
    if got["ok"] and at and got["v"] < cur:
        return "backward"
    if got["ok"] and got["v"] not in d:
        return "value-not-in-set"
    if got["ok"] and not want["ok"]:
        return "value-after-end"
    if got["ok"] and got["v"] > want["v"]:
        return "skip"
    if got["ok"] and got["v"] < want["v"]:
        return "below-target"
    return "mismatch"


def classes(hist, d, tab):
    """Mirrors vh-iter/main.go:classes: the last two calls relative to the node's denotation and cursor."""
    # calls that (correctly) left the cursor where it was are dropped (no-ops in the specification)
    kept, at = [], None
    for i, h in enumerate(hist):
        if i < len(hist) - 1 and h["ok"] and h["v"] == at:
            continue
        kept.append(h)
        if h["ok"]:
            at = h["v"]
    hist = kept
    cur = None
    cls = ["fresh"]
    for i, h in enumerate(hist):
        c = "next"
        if h["op"] == "advance":
            k = h["k"]
            if cur is not None and k <= cur:
                c = "advance(back)"
            elif not any(x >= k for x in d):
                c = "advance(past-end)"
            elif k in d:
                c = "advance(hit)"
            else:
                c = "advance(gap)"
                land = min(x for x in d if x >= k)
                if group_of(tab, land) != group_of(tab, k):
                    present = any(group_of(tab, x) == group_of(tab, k) for x in d)
                    c = "advance(gap/later-ns)" if present else "advance(gap/absent-ns)"
        cls.append(c)
        if i < len(hist) - 1 and h["ok"]:
            cur = h["v"]
    return ", ".join(cls[-2:])


def signature(node, hist, want, d, tab):
    cur = None
    for h in hist[:-1]:
        if h["ok"]:
            cur = h["v"]
    return "%s: %s -> %s" % (node, classes(hist, d, tab), symptom(cur, hist[-1], want, d))


# ------------------------------------------------------------------------------------------------ running
class Collector:
    """Gathers violations reported by the walk adapter, keeps the smallest example per signature."""

    def __init__(self, ctx):
        self.ctx = ctx
        self.by_sig = {}
        self.stats = {}
        self.other = []
        self.passed = set()        # ids of the cases of the latest absorb() that passed

    def absorb(self, verdicts, cases, model, check_sig=True, binary=None):
        # a case that got no answer in time is run again on its own with a very long deadline before it counts
        # (the machine may be heavily loaded); only a case that still does not answer is a hang
        slow = [v for v in verdicts if not v.get("ok") and v.get("key") == "timeout"]
        if slow and binary:
            again = [dict(cases[v["id"]], id=i) for i, v in enumerate(slow)]
            self.ctx.note("%d case(s) exceeded the per-case deadline; re-running them alone" % len(slow))
            rv = self.ctx.run_cases(binary, "walk", again, workers=min(4, len(again)), timeout_ms=1800000,
                                    name="retry", total_timeout=4000)
            redo = {}
            for v, r in zip(slow, rv):
                r = dict(r)
                r["id"] = v["id"]
                redo[v["id"]] = r
            verdicts = [redo.get(v["id"], v) if (not v.get("ok") and v.get("key") == "timeout") else v for v in verdicts]
        self.passed = set()
        for v in verdicts:
            for k, n in (v.get("stats") or {}).items():
                self.stats[k] = self.stats.get(k, 0) + n
            if v.get("ok"):
                self.passed.add(v["id"])
                continue
            case = cases[v["id"]]
            obs = v.get("obs")
            if not isinstance(obs, list) or not obs or not isinstance(obs[0], dict) or "sig" not in obs[0]:
                # crash / timeout / harness problem: keep the runtime's own key
                self.other.append((v, case))
                continue
            for viol in obs:
                if check_sig and viol.get("want") and viol.get("node_calls") and not viol["sig"].startswith("unmonitored") \
                        and viol["symptom"] not in ("panic", "value-changes-between-calls") \
                        and not viol["symptom"].startswith("after-failed-advance"):
                    mine = signature(viol["node"], viol["node_calls"], viol["want"], viol.get("node_denotation") or [],
                                     case["table"])
                    if mine != viol["sig"]:
                        raise Inconclusive("signature mismatch between harness and check: %r vs %r" % (viol["sig"], mine))
                size = (len(viol.get("node_calls") or []), len(viol.get("top_calls") or []),
                        sum(len(x) for x in case["idx"].values()), qsize(viol["query"]), canon(viol))
                old = self.by_sig.get(viol["sig"])
                if old is None or size < old[0]:
                    self.by_sig[viol["sig"]] = (size, viol, case, v.get("msg", ""), (old[4] if old else 0) + 1, model)
                else:
                    self.by_sig[viol["sig"]] = old[:4] + (old[4] + 1,) + old[5:]

    def register(self, model=None):
        ctx = self.ctx
        for sig in sorted(self.by_sig):
            size, viol, case, msg, count, mdl = self.by_sig[sig]
            what = describe(viol, case["table"])
            replay = make_replay(viol, case, mdl)
            for _ in range(count):
                ctx.fail(sig, what, replay)
        for v, case in self.other:
            small = {k: case[k] for k in case if k not in ("dens",)}
            ctx.fail(v.get("key") or "harness", v.get("msg", ""), {"adapter": "walk", "case": small, "verdict": v})
        for k, n in self.stats.items():
            ctx.extra_cov[k] = ctx.extra_cov.get(k, 0) + n


def fmt_id(tab, r):
    t, ns, v = tab[r]
    return "%d=/%s/%s/%s" % (r, {0: "point", 1: "path", 2: "area", 3: "relation", 5: "collection"}.get(t, t), ns, v)


def describe(viol, tab):
    calls = []
    for h in viol.get("node_calls") or []:
        s = h["op"] if h["op"] == "next" else "advance(%s)" % fmt_id(tab, h["k"])
        s += "->%s" % (h["v"] if h["ok"] else "false")
        calls.append(s)
    want = viol.get("want") or {}
    w = str(want.get("v")) if want.get("ok") else "false"
    dd = viol.get("node_denotation") or []
    shown = " ".join(fmt_id(tab, r) for r in dd[:10]) + (" ... (%d values)" % len(dd) if len(dd) > 10 else "")
    if len(calls) > 8:
        calls = ["..."] + calls[-8:]
    if (viol.get("symptom") or "").startswith("after-failed-advance"):
        return ("%s over {%s}: calls %s; after an Advance that returned false, further Next calls must yield only "
                "remaining values of the set in increasing order and then end, whether or not the failed Advance "
                "moved the iterator (%s%s) [top-level query %s, calls %s, index %s, kind %s/%s]" % (
                    viol["node"], shown, " ".join(calls), viol["symptom"],
                    (" " + viol["got_id"]) if viol.get("got_id") else "", qstr(viol["query"]),
                    ",".join(viol.get("top_calls") or []), canon(viol.get("idx")), viol.get("kind"), viol.get("profile")))
    return "%s over {%s}: calls %s; the specification says the last call gives %s (%s%s) [top-level query %s, calls %s, index %s, kind %s/%s]" % (
        viol["node"], shown, " ".join(calls), w,
        viol["symptom"], (" " + viol["got_id"]) if viol.get("got_id") else "", qstr(viol["query"]),
        ",".join(viol.get("top_calls") or []), canon(viol.get("idx")), viol.get("kind"), viol.get("profile"))


def parse_call(s):
    if s == "next":
        return {"op": "next", "k": 0}
    return {"op": "advance", "k": int(s[len("advance("):-1])}


def make_replay(viol, case, model):
    """A self-contained walk case that re-executes exactly the failing top-level call sequence."""
    qi = model.qindex.get(canon(strip(viol["query"])))
    ik = canon(case["idx"])
    out = {k: case[k] for k in ("kind", "profile", "variant", "table", "idx", "after_fail") if k in case}
    if qi is None or ik not in model.dens:
        out.update({"note": "query not in the model", "violation": viol})
        return {"adapter": "walk", "case": out}
    sub, dens = model.sub_model(qi, ik)
    out.update({"id": 0, "model": sub, "dens": dens, "only": [0], "depth": 0,
                "calls": [[parse_call(s) for s in viol["top_calls"]]]})
    return {"adapter": "walk", "case": out, "violation": viol}


def run_replay(ctx, obj, binary_name="vh-iter"):
    """check.py --replay: re-execute a replay file's case on the current tree."""
    rep = obj.get("replay") or obj
    if rep.get("tool") == "drive":
        # a recorded random run: record the same seeded runs again on the current tree and let TLC judge them
        from props import itertrace
        a = rep["args"]
        ctx.seed = a["seed"]
        before = len(ctx.failures)
        itertrace.validate(ctx, None, mode=a["mode"], runs=a["runs"], maxkeys=a["maxkeys"], calls=a["calls"], kinds=a["kinds"])
        mine = [f for f in ctx.failures[before:] if (f.get("replay") or {}).get("run") == rep.get("run")]
        if not mine:
            print("replay: run %s of the recorded random runs is now accepted by TraceSortedIter" % rep.get("run"))
            return 0
        print("replay: still failing: key=%s\n  %s" % (mine[0]["key"], str(mine[0]["what"])[:1200]))
        print("VIOLATION property=%s replay=%s" % (ctx.prop, ctx.replay))
        return 1
    case = rep.get("case")
    if not case or "model" not in case:
        print("replay file has no executable case")
        return 2
    binary = ctx.go_build(binary_name)
    vs = ctx.run_cases(binary, "walk", [case], workers=1)
    v = vs[0]
    if v.get("ok"):
        print("replay: the recorded call sequence now behaves as specified")
        return 0
    print("replay: still failing: key=%s\n  %s" % (v.get("key"), v.get("msg")))
    print("VIOLATION property=%s replay=%s" % (ctx.prop, ctx.replay))
    return 1


def pick_bare(ik, seed, one_in=4):
    return (hash_str(ik) + seed) % one_in == 0


def hash_str(s):
    import hashlib
    return int(hashlib.sha1(s.encode()).hexdigest()[:8], 16)
