"""C15 -- reference queries return the current referrers and always terminate  (MutableWorld family; see tools/mworld.py)"""
import mworld

META = {
    "engine": "mworld",
    "level": "model_checking",
    "text": 'World!Referrers (least fixpoint of direct references) is the definition; TLC enumerates edit histories of scenario 3 (referrers replaced so that they stop or start referencing) and scenario 4 (relation cycles); every transition is executed on the real worlds and FindReferences / FindAreasByPoint / FindRelationsByFeature / FindCollectionsByFeature must return exactly that set, once each, within a deadline (a fatal stack overflow or a hang is an observation).',
    "note": 'Small scope (<= 13 features on a convex polygon, 3 tag keys, 2 values); self-crossing loops are never generated (validity unspecified in the vendored s2). Trusted: TLC, harness/obs, vh-world. Scope: worlds whose reference index is FeatureReferencesByID (basic, BasicMutableWorld, MutableOverlayWorld); result order unspecified (compared as sets with a duplicate check).',
    "technique": "TLA+ spec (MutableWorld) model-checked by TLC; exported state graph replayed on the real worlds",
}


def run(ctx):
    return mworld.run_family(
        ctx, "C15", scenarios=[2, 3, 4, 8], impls=['basicmutable', 'overlay-basic', 'overlay-mutable', 'overlay-empty'],
        sections=['refs', 'areas', 'rels', 'colls', 'hang'],
        meta_rule='every transition of scenarios 3-4 executed via its shortest prefix on 4 world constructions + random walks',
        assumptions=[],
        focused=(100, 600))
