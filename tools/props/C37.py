"""C37 -- every feature in a world is valid (edit half)  (MutableWorld family; see tools/mworld.py)"""
import mworld
import sworld

META = {
    "engine": "mworld",
    "level": "model_checking",
    "text": 'InvValid (every feature of eff is valid) is checked by TLC on every reachable state; on the real worlds every transition of scenario 3 is executed and (a) an AddFeature the specification rejects must be rejected, (b) after every step every observed feature passes an independent validity check (>= 2 resolvable points, closed paths counter-clockwise, areas over existing closed paths of >= 3 points).',
    "note": 'Small scope (<= 13 features on a convex polygon, 3 tag keys, 2 values); self-crossing loops are never generated (validity unspecified in the vendored s2). Trusted: TLC, harness/obs, vh-world. The build half runs every source of StaticWorld scenario 1 through the basic and the compact builder.',
    "technique": "TLA+ spec (MutableWorld) model-checked by TLC; exported state graph replayed on the real worlds",
}


def run(ctx):
    # edit half: every transition of scenario 3 on the mutable worlds
    mworld.run_family(
        ctx, "C37", scenarios=[3, 10], impls=['basicmutable', 'overlay-basic', 'overlay-mutable', 'overlay-empty'],
        sections=['result-overaccept', 'validity'], finish=False,
        focused=(150, 800), frames=("", "antimeridian"))
    # build half: every source of StaticWorld scenario 1 (valid and invalid features of every class) built as a basic
    # world and as a compact world; what the build keeps must pass the independent validity check and equal
    # StaticWorld!ValidSubset (a kept invalid feature shows up as a lookup/validity mismatch)
    return sworld.run_static(
        ctx, "C37", 1,
        variants=[{"impl": "basic", "cores": 1}, {"impl": "basic", "cores": 4}, {"impl": "basic", "cores": 1, "frame": "antimeridian"}, {"impl": "compact", "cores": 2, "all_sources": True, "max": (40, 400)}],
        sections=["validity", "problems", "build", "observe"],
        rule='every transition of MutableWorld scenario 3 executed via its shortest prefix on 4 world constructions + random '
             'walks; every source of StaticWorld scenario 1 built as basic (1, 4 goroutines) and compact worlds; after every '
             'step / build every observed feature passes an independent validity check; distinct = (scenario, impl, op path) '
             'and (impl, cores, source)',
        assumptions=["self-crossing loops are never generated (their validity is unspecified in the vendored s2)"],
        max_cases=ctx.pick(300, None),
        interesting=lambda c: len(c["dropped"]) > 0)
