"""C37 -- every feature in a world is valid (edit half)  (MutableWorld family; see tools/mworld.py)"""
import mworld

META = {
    "engine": "mworld",
    "level": "model_checking",
    "text": 'InvValid (every feature of eff is valid) is checked by TLC on every reachable state; on the real worlds every transition of scenario 3 is executed and (a) an AddFeature the specification rejects must be rejected, (b) after every step every observed feature passes an independent validity check (>= 2 resolvable points, closed paths counter-clockwise, areas over existing closed paths of >= 3 points).',
    "note": 'Small scope (<= 13 features on a convex polygon, 3 tag keys, 2 values); self-crossing loops are never generated (validity unspecified in the vendored s2). Trusted: TLC, harness/obs, vh-world. The build half of the property (builders dropping invalid features) is covered by the C36 check.',
    "technique": "TLA+ spec (MutableWorld) model-checked by TLC; exported state graph replayed on the real worlds",
}


def run(ctx):
    return mworld.run_family(
        ctx, "C37", scenarios=[3], impls=['basicmutable', 'overlay-basic', 'overlay-mutable', 'overlay-empty'],
        sections=['result-overaccept', 'validity'],
        meta_rule='every transition of scenario 3 executed via its shortest prefix on 4 world constructions + random walks; distinct = (scenario, impl, op path)',
        assumptions=[])
