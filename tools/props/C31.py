"""C31 -- feature IDs survive every textual and wire encoding; Less is a strict total order consistent with
the compact index.  Spec: IDs.tla; binding A: every ID class / structured ID / alias / ordered pair TLC enumerates is
executed on the real conversions."""
import random

from vlib import canon, Inconclusive

META = {
    "engine": "codec",
    "level": "exploration",
    "text": "IDs.tla defines abstract IDs (type, namespace rank, value class) with the lexicographic Less; TLC checks the strict "
            "total order axioms and the agreement with the compact sort key on all triples of a small set, and the token-level "
            "design of the textual forms (alias table unambiguous, namespace recoverable).  For the Go code the claim is "
            "exploration: every ID class TLC enumerates (6 types x 16 namespaces incl. ones with many '/', upper case, digits, "
            "non-ASCII letters, characters the shell cannot lex, every alias namespace x 8 value classes incl. bit 63 and max), "
            "every postcode / ONS shape and every alias prefix is concretised (order preserving) and round-tripped through "
            "String, JSON, YAML, protobuf (message and wire), shell tokens with and without abbreviation, the shell parser and "
            "the typed IDs; FeatureID.Less on ~100 concrete IDs is compared pairwise with the spec's Less, the order axioms are "
            "evaluated on the real function over all triples, and the compact FeatureIDs/References order is compared with it.",
    "note": "Domain: valid IDs only (non-empty namespace, type other than invalid); shell forms only for namespaces made of "
            "letters, digits, '.', '-', '_' and '/'; abbreviated forms in the postcode and ONS namespaces only for structured "
            "values (postcodes of 5-7 alphanumerics; letter + 8 digits + year 1900..2155).  Trusted: TLC, yaml.v2, encoding/json, "
            "protobuf, the adapter.",
    "technique": "TLA+ spec (IDs) + TLC exhaustive on abstract IDs; every enumerated class and ordered pair executed on the real code",
}


def _register(ctx, verdicts, cases):
    for v in verdicts:
        ctx.evaluations += 1
        for k, n in (v.get("stats") or {}).items():
            ctx.extra_cov[k] = ctx.extra_cov.get(k, 0) + n
        if v.get("ok"):
            continue
        case = cases[v["id"]]
        fs = ((v.get("obs") or {}).get("failures") if isinstance(v.get("obs"), dict) else None) or \
            [{"key": v.get("key") or "unknown", "msg": v.get("msg", "")}]
        for f in fs:
            ctx.fail(f["key"], f["msg"], {"case": case, "adapter": "ids", "binary": "vh-codec"})


def run(ctx):
    r = ctx.tlc("IDs", ctx.pick("IDs.cfg", "IDsThorough.cfg"), heap="2g", workers=8)
    ids = r.lines.get("CASE", [])
    order = r.lines.get("ORDER", [])
    if len(ids) < 600 or len(order) != 1 or len(r.lines.get("ALIAS", [])) != 7:
        raise Inconclusive("export incomplete: %d id classes, %d order lines" % (len(ids), len(order)))
    binary = ctx.go_build("vh-codec")
    variants = ctx.pick(2, 12)
    cases = []

    def add(kind, shape, v=variants):
        cases.append({"id": len(cases), "kind": kind, "shape": shape, "variants": v})
        ctx.distinct_cases.add(canon([kind, shape if kind != "order" else "order"]))

    for s in ids:
        add("id", s)
    for s in r.lines.get("POSTCODE", []):
        add("postcode", s, ctx.pick(4, 40))
    for s in r.lines.get("ONS", []):
        add("ons", s, ctx.pick(2, 20))
    for s in r.lines.get("ALIAS", []):
        add("alias", s, ctx.pick(2, 20))
    add("order", order[0], ctx.pick(3, 20))
    n = len(order[0]["ids"])
    ctx.extra_cov["order_sample_size"] = n
    ctx.extra_cov["order_pairs_in_spec"] = n * n
    rng = random.Random(ctx.seed)
    for i in rng.sample(range(len(cases) - 1), 4):
        ctx.sample({"kind": cases[i]["kind"], "shape": cases[i]["shape"]})
    vs = ctx.run_cases(binary, "ids", cases, timeout_ms=60000)
    _register(ctx, vs, cases)
    ctx.traces_validated = len(cases)      # behaviours (conversions of one ID class / the order sample) replayed on the implementation
    if ctx.extra_cov.get("alias_forms_printed", 0) == 0:
        ctx.note("no ID was printed with an alias prefix: the alias part of the property was not exercised")

    # binding self-test: falsified expectations must be rejected
    pick = [next(j for j, c in enumerate(cases) if c["kind"] == k) for k in ("id", "postcode", "ons", "alias", "order")]
    probe = [dict(cases[i], id=n, corrupt=True) for n, i in enumerate(pick)]
    pv = ctx.run_cases(binary, "ids", probe, timeout_ms=60000, name="selftest")
    if any(v.get("ok") for v in pv):
        raise Inconclusive("binding self-test failed: a corrupted expectation was accepted")
    ctx.extra_cov["selftest_corrupted_cases_rejected"] = len(pv)
    return ctx.finish(
        "exploration",
        rule="TLC enumerates all 672 ID classes (6 types x 16 namespaces x 8 value classes), 15 postcode shapes, 36 ONS shapes, "
             "the 7 aliases and an order sample of %d abstract IDs with the full Less matrix, and checks the order axioms + "
             "compact-key agreement on all triples of a small set and the token-level text round trip for every class; each "
             "class is one case executed with %d concretisations through every encoding in its domain; the order case compares "
             "the real Less with the matrix on all %d ordered pairs and evaluates the axioms on all triples. "
             "distinct = distinct (kind, shape)." % (n, variants + 1, n * n),
        assumptions=[
            "valid IDs only; namespaces without leading/trailing '/'",
            "abbreviated forms of postcode / ONS IDs only for structured values; shell parser forms only for lexable namespaces",
            "the alias prefixes are those named by the property; what namespace an alias stands for is not asserted, only that "
            "text -> ID -> text and ID -> text -> ID are identities",
            "compact order: types point..relation, namespace codes from NamespaceTable.FillFromNamespaces",
        ],
        exhaustive=False)


def replay(ctx, rep):
    case = rep["replay"]["case"]
    binary = ctx.go_build("vh-codec")
    vs = ctx.run_cases(binary, "ids", [dict(case, id=0)], timeout_ms=60000)
    _register(ctx, vs, [case])
    return ctx.finish("exploration", rule="replay of one recorded case", exhaustive=False)
