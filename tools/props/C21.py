"""C21 -- the VM evaluates programs as the language defines.
Spec: Lang.tla (reference interpreter), LangGen.tla (all programs up to a size), LangTrace.tla (judging logged runs).
Binding A: every program TLC enumerates is evaluated by api.Evaluate and compared with Lang's result.
Binding B: seeded random larger programs are evaluated by the VM first; TLC evaluates Lang on the log."""
import copy

from vlib import Inconclusive
from props import lang_common as L

META = {
    "engine": "lang",
    "level": "model_checking",
    "text": "Lang.tla is a reference interpreter written in TLA+ (lexical scope, trailing-argument partial "
            "application, fixed-arity typed library). TLC enumerates EVERY well-formed program up to a size bound "
            "over several library subsets and evaluates the interpreter on each; every such program is built as a "
            "b6.Expression tree and run on the real VM (api.Evaluate, panics caught) and value / error class / "
            "function arity and behaviour on probe arguments compared. Larger seeded random programs are run on "
            "the VM first and judged by TLC evaluating the same interpreter on the logged program.",
    "note": "Bounded program size (exhaustive part) and sampling above it; library = add/sub/sub3/neg/pair/first/"
            "second/apply1 + the registered `call`; integers only. Trusted: TLC, the 400-line Go adapter, Lang.tla "
            "as the definition of the language. Programs whose meaning the language leaves undefined (escaped "
            "closure called after its lambda literal was re-activated, function-position symbols bound by a lambda) "
            "are executed and counted but never asserted.",
    "technique": "TLA+ reference interpreter (Lang) + TLC exhaustive enumeration by size; every program replayed on "
                 "api.Evaluate; random programs trace-validated by TLC",
}

def failure_key(text, vm_obs, cls):
    """same naming as the adapter's failureKey (harness/cmd/vh-lang/main.go)"""
    pm = L.first_panic(vm_obs)
    if not pm:
        return "closure-escaped-from-partial-application: vm-mismatch" if cls == "pe" else "vm-mismatch " + text
    if cls == "pe" and "OpLoad of invalid value" in pm:
        return "closure-escaped-from-partial-application: " + L.panic_key(pm)
    return L.panic_key(pm)


def run(ctx):
    jobs = ctx.pick([("core", 3), ("lambda", 4), ("partial", 5), ("pairs", 4)],
                    [("core", 4), ("lambda", 5), ("partial", 5), ("pairs", 5), ("callonly", 6)])
    enum = L.enumerate_programs(ctx, jobs, "case")
    binary = ctx.go_build("vh-lang")

    cases = []
    for job in jobs:
        for c in enum[job]:
            cases.append({"id": len(cases), "p": c["p"], "want": c["want"], "cls": c.get("cls", "-")})
    nenum = len(cases)
    for c in cases[:nenum:max(1, nenum // 3)][:3]:
        ctx.sample({"program": L.show(c["p"]), "expected": c["want"]})

    # binding self-test: a corrupted expectation must be reported by the adapter
    probe = next((c for c in cases if c["want"].get("t") == "int"), None)
    if probe is None:
        raise Inconclusive("no integer-valued case to run the binding self-test on")
    bad = copy.deepcopy(probe)
    bad["id"] = 0
    bad["want"]["v"] += 1
    sv = ctx.run_cases(binary, "vm", [bad], name="selftest")
    if sv[0].get("ok"):
        raise Inconclusive("binding self-test: a corrupted expected value was not detected")

    vs = ctx.run_cases(binary, "vm", cases, timeout_ms=30000)
    ctx.absorb(vs, case_of=lambda i: {"program": L.show(cases[i]["p"]), "p": cases[i]["p"], "want": cases[i]["want"]})
    for c in cases:
        ctx.distinct_cases.add(L.show(c["p"]))

    # binding B: named + random programs above the exhaustive bound; VM first, TLC judges the log
    progs = L.named_programs() + L.random_programs(ctx.seed, ctx.pick(1500, 8000), maxdepth=ctx.pick(4, 5),
                                                    maxsize=ctx.pick(18, 26))
    ocases = [{"id": i, "p": p, "simplify": False} for i, p in enumerate(progs)]
    ovs = ctx.run_cases(binary, "observe", ocases, name="observe", timeout_ms=30000)
    recs, dead = [], 0
    for v in ovs:
        ctx.evaluations += 1
        if not v.get("ok") or not isinstance(v.get("obs"), dict):
            # the worker died or hung on this program (stack overflow, endless loop): an observation too
            dead += 1
            p = progs[v["id"]]
            ctx.fail(v.get("key") or "vm-crash", "program %s: %s" % (L.show(p), v.get("msg", "")[:600]),
                     {"program": L.show(p), "p": p})
            continue
        o = v["obs"]
        recs.append({"id": v["id"], "m": "vm", "p": o["p"], "vp": o["vp"]})
    res = L.judge_trace(ctx, recs)
    unasserted = 0
    for r in recs:
        j = res[r["id"]]
        text = L.show(r["p"])
        ctx.distinct_cases.add(text)
        if j["u"]:
            unasserted += 1
            continue
        if not j["vmp"]:
            pm = L.first_panic(r["vp"])
            ctx.fail(failure_key(text, r["vp"], j.get("cls")), "program %s: VM observed %s, reference interpreter %s" % (text, L.strip_msgs(r["vp"]) if not pm else pm, j["lp"]),
                     {"program": text, "p": r["p"], "vm": r["vp"], "lang": j["lp"]})
    ctx.sample({"program": L.show(progs[len(L.named_programs()) + 1]), "checked_by": "LangTrace"})
    ctx.extra_cov["enumerated_programs"] = nenum
    ctx.extra_cov["random_programs"] = len(progs)
    ctx.extra_cov["unasserted_random"] = unasserted
    ctx.extra_cov["enumeration"] = ["%s<=%d: %d" % (j[0], j[1], len(enum[j])) for j in jobs]
    return ctx.finish(
        "model_checking",
        rule="TLC (LangGen) enumerates every closed well-formed program up to the size bound of each library profile "
             "(" + ", ".join("%s size<=%d" % j for j in jobs) + "; literals numbered in preorder) with the value / "
             "error / function(arity, result on probe arguments 7 3 2) the reference interpreter Lang.tla computes; "
             "each is evaluated by api.Evaluate on a b6.Expression tree built directly (recover around it) and "
             "compared. Plus seeded random programs up to size %d run on the VM and judged by TLC (LangTrace). "
             "distinct = distinct programs." % ctx.pick(18, 26),
        assumptions=["only value vs error class is compared, never messages",
                     "function-position symbols name library functions; function values are applied with `call`, "
                     "by a call whose function is a lambda/call, or by apply1 (programs calling a lambda-bound symbol "
                     "are outside the domain)",
                     "programs in which a variable is read whose binding activation is not the latest activation of "
                     "its lambda literal (escaped closures, re-entrancy) are executed but not asserted",
                     "integers are small (no overflow); parameter names never shadow library names"],
        exhaustive=True,
        trusted_base=["TLC", "harness/cmd/vh-lang", "Lang.tla as the definition of the language"])
