"""C17 -- worlds merged from several index files act as one world.  Spec: StaticWorld.tla, scenario 1."""
import sworld

META = {
    "engine": "sworld",
    "level": "model_checking",
    "text": "The specification's world for a source does not depend on how the source is split into files; TLC enumerates "
            "1080 sources and every one is built as several compact index files merged into one world: (split 1) points in "
            "a base file and everything else in an overlay file built against it with BuildOverlayInMemory, (split 2) points / paths+areas / relations as three files, (split 3) three files that all contain every point; lookup, tag search (merged in ID order, no duplicates), enumeration and the "
            "geometry of overlay paths (points resolved in the base file) must equal the specification's single world.",
    "note": "Small scope: 9 IDs, one namespace shared by all files (the interesting case for first-matching-block bugs). "
            "Trusted: TLC, harness/obs, vh-world.",
    "technique": "TLA+ spec (StaticWorld) enumerated by TLC; every case built as merged compact files and observed",
}


def run(ctx):
    return sworld.run_static(
        ctx, "C17", 1,
        variants=[{"impl": "compact-split", "cores": 2, "split": 1, "max": (24, 300)},
                  {"impl": "compact-split", "cores": 1, "split": 2, "max": (12, 150)},
                  {"impl": "compact-split", "cores": 1, "split": 4, "max": (12, 150)},   # overlay file loaded before its base
                  # every point present in three files: search must return it once (enumeration of duplicated
                  # features is not part of the statement and is not compared)
                  {"impl": "compact-split", "cores": 1, "split": 3, "max": (14, 150),
                   "sections": ["lookup", "search", "problems", "build", "observe"]}],
        sections=["lookup", "search", "each", "problems", "build", "observe"],
        rule="every source TLC enumerates for scenario 1 built as 2 and as 4 merged compact files; distinct = (split, source)",
        max_cases=ctx.pick(400, None))
