"""C16 -- overlay worlds shadow the base consistently.  Spec: StaticWorld.tla (Layered), scenario 2."""
import mworld
import sworld

META = {
    "engine": "sworld",
    "level": "model_checking",
    "text": "StaticWorld!Layered(upper, base) = upper shadows base ID by ID; TLC enumerates 1536 (base, upper) pairs with "
            "overlapping / disjoint ID sets and differing tags and geometry, checks LayeredShadows on each, and every "
            "pair is built as ingest.NewOverlayWorld over basic worlds, compact worlds and a mix; lookup, locations, tag "
            "search (order, no duplicates) and enumeration (each ID once, upper version) must equal the specification's.",
    "note": "Mutable overlays (NewMutableOverlayWorld) are exercised with the edit histories of MutableWorld scenario 1. Both layers are self-contained valid worlds (an upper path needs its points in the upper layer). "
            "The basic pairs are also built in a frame where vertex 4 (an upper-layer location of P0) is exactly latitude 0, longitude 0. "
            "Small scope: 9 IDs. Collections are left out of compact layers (the compact format does not store them). "
            "Trusted: TLC, harness/obs, vh-world.",
    "technique": "TLA+ spec (StaticWorld) enumerated by TLC; every case built with the real worlds and observed",
}


def run(ctx):
    # the mutable overlay over a base (ingest.NewMutableOverlayWorld): edit histories of MutableWorld scenario 1, after
    # every step lookup and search of the overlay must be the specification's (an edited feature shadows its base version)
    mworld.run_family(
        ctx, "C16", scenarios=[1], impls=['overlay-basic', 'overlay-mutable'],
        sections=['lookup', 'search', 'problems'], finish=False,
        max_paths={1: 250}, focused=(40, 400))
    return sworld.run_static(
        ctx, "C16", 2,
        variants=[{"impl": "layered-basic"}, {"impl": "layered-basic", "frame": "origin", "max": (200, 1536)},
                  {"impl": "layered-compact", "cores": 2, "max": (20, 250)},
                  {"impl": "layered-mixed", "max": (20, 250)}],
        sections=["lookup", "search", "each", "problems"],
        rule="every (base, upper) pair TLC enumerates for scenario 2, built three ways; distinct = (impl, base, upper)",
        max_cases=ctx.pick(500, None))
