"""C33 -- vector tile geometry decodes to the projected feature.

Spec: TileCmd.tla (MVT command stream: encoder per the tile specification, decoder state machine,
b6's loop emission order) model-checked on all small ring sets; TileCmdTrace.tla validates command streams
recorded from the real renderer.EncodeTile with the same decoder (binding B).  Binding A: every
single-geometry input TLC enumerates is encoded by the real encoder and decoded by the adapter's decoder.
"""
import json
import math
import random

from vlib import Inconclusive, canon

META = {
    "engine": "formats",
    "level": "model_checking",
    "text": "TileCmd.tla defines the vector-tile command stream (command integers, zigzag deltas, cursor) with an encoder "
            "per the tile specification and a decoder state machine; TLC checks decode(encode(rings)) = rings, no error, no "
            "stuck state for every small ring set, and that b6's hole emission order yields opposite windings. Features "
            "encoded by the real renderer.EncodeTile (seeded points, lines, polygons with holes, several features and layers "
            "per tile) are logged with their projected integer rings and validated by TLC with the same decoder "
            "(TileCmdTrace), and cross-checked by an independent Go decoder incl. tag key/value tables.",
    "note": "Projected integer coordinates are computed with b6.TileMercatorProjection itself (the property speaks of 'the "
            "feature's projected coordinates'; the projection and s2 are trusted). Rings have at most 1000 vertices (the "
            "encoder simplifies longer ones, which the property does not cover), features lie inside the tile, zoom 10..18. "
            "TLC validates features whose rings have <= 24 vertices (32-bit integer shoelace sums); larger ones are judged "
            "by the Go decoder only. Trusted: TLC, tile.go adapter, protobuf.",
    "technique": "TLA+ spec (TileCmd) + TLC exhaustive on small ring sets; trace validation of real encoder output "
                 "(TileCmdTrace); TLC-enumerated inputs replayed on renderer.EncodeTile",
}

STR = ["", "a", "class", "name", "pedestrian", "fountain", "höhe", "日本", "x y", "k=v", "0", "12"]


def star(rng, cx, cy, rmin, rmax, n, cw):
    """integer star-shaped ring around (cx, cy): distinct vertices, nonzero area"""
    for _ in range(50):
        pts = []
        base = rng.random() * 2 * math.pi
        for i in range(n):
            a = base + 2 * math.pi * (i + (rng.random() - 0.5) * 0.3) / n
            r = rmin + (rmax - rmin) * rng.random()
            pts.append([int(round(cx + r * math.cos(a))), int(round(cy + r * math.sin(a)))])
        if len({tuple(p) for p in pts}) != n:
            continue
        area2 = sum(pts[i][0] * pts[(i + 1) % n][1] - pts[(i + 1) % n][0] * pts[i][1] for i in range(n))
        if area2 == 0:
            continue
        if cw:
            pts.reverse()
        return pts
    raise Inconclusive("could not generate a ring")


def gen_tags(rng):
    return {rng.choice(STR[1:]): rng.choice(STR) for _ in range(rng.choice([0, 1, 1, 2, 3, 4]))}


def gen_feature(rng, small):
    kind = rng.choice(["point", "line", "polygon", "polygon"])
    f = {"kind": kind, "tags": gen_tags(rng), "fid": rng.choice([0, 0, rng.randrange(1, 1 << 40)])}
    if kind == "point":
        f["rings"] = [[[rng.randrange(4096), rng.randrange(4096)]]]
    elif kind == "line":
        n = rng.choice([2, 2, 3, 5, 9]) if small else rng.choice([2, 3, 17, 60, 400, 999])
        pts = []
        for i in range(n):
            if pts and rng.random() < 0.1:
                pts.append(list(pts[-1]))  # zero delta
            elif pts and rng.random() < 0.5:
                pts.append([min(4095, max(0, pts[-1][0] + rng.randrange(-40, 41))), min(4095, max(0, pts[-1][1] + rng.randrange(-40, 41)))])
            else:
                pts.append([rng.randrange(4096), rng.randrange(4096)])
        f["rings"] = [pts]
    else:
        holes = rng.choice([0, 0, 1, 2, 3])
        if holes:
            n = rng.choice([8, 9, 12, 20]) if small else rng.choice([8, 16, 60, 300, 1000])
        else:
            n = rng.choice([3, 4, 5, 8, 13]) if small else rng.choice([3, 4, 7, 40, 500, 1000])
        # radius large enough for n distinct integer vertices in strictly increasing angular order
        big = max(rng.randrange(200, 1500), min(1499, int(n * 1.6)))
        cx, cy = rng.randrange(big + 5, 4090 - big), rng.randrange(big + 5, 4090 - big)
        rings = [star(rng, cx, cy, 0.6 * big, big, n, rng.random() < 0.5)]
        depth = [0]
        for h in range(holes):
            a = 2 * math.pi * h / 3 + 0.4
            hx, hy = cx + 0.3 * big * math.cos(a), cy + 0.3 * big * math.sin(a)
            rings.append(star(rng, hx, hy, 0.08 * big, 0.12 * big, rng.choice([3, 4, 5, 8]), rng.random() < 0.5))
            depth.append(1)
            if rng.random() < 0.3:
                # an island inside the hole (and now and then a pond on the island): exterior ring again.  Each ring
                # stays inside the largest disc around the centre that fits into the ring around it
                room = clearance(rings[-1], hx, hy)
                if room >= 8:
                    rings.append(star(rng, hx, hy, 0.5 * room, 0.8 * room, rng.choice([3, 4, 5]), rng.random() < 0.5))
                    depth.append(2)
                    room = clearance(rings[-1], hx, hy)
                    if rng.random() < 0.4 and room >= 8:
                        rings.append(star(rng, hx, hy, 0.5 * room, 0.8 * room, 3, rng.random() < 0.5))
                        depth.append(3)
        f["rings"] = rings
        f["depth"] = depth
    return f


def clearance(ring, cx, cy):
    """distance from (cx, cy) to the nearest edge of the ring"""
    best = float("inf")
    n = len(ring)
    for i in range(n):
        (x1, y1), (x2, y2) = ring[i], ring[(i + 1) % n]
        dx, dy = x2 - x1, y2 - y1
        t = max(0.0, min(1.0, ((cx - x1) * dx + (cy - y1) * dy) / float(dx * dx + dy * dy)))
        best = min(best, math.hypot(cx - (x1 + t * dx), cy - (y1 + t * dy)))
    return best - 1.0      # vertices are rounded to integers


def gen_tile(rng, small):
    z = rng.choice([10, 12, 14, 16, 18])
    n = 1 << z
    # keep away from the poles' last rows: y in the middle 90%
    x, y = rng.randrange(n), rng.randrange(n // 20, n - n // 20)
    layers = []
    for li in range(rng.choice([1, 1, 2, 3])):
        nf = rng.choice([0, 1, 1, 2, 4])
        layers.append({"name": "layer%d" % li, "features": [gen_feature(rng, small) for _ in range(nf)]})
    if not any(l["features"] for l in layers):
        layers[0]["features"].append(gen_feature(rng, small))
    return {"z": z, "x": x, "y": y, "layers": layers}


def sig(f):
    return canon([f["kind"], [len(r) for r in f["rings"]], len(f["tags"])])


def cfg(pts):
    return ("SPECIFICATION Spec\nCONSTANTS\n  Pts <- %s\n  MaxRing = 3\n  MaxRings = 2\n"
            "INVARIANTS NoError Progress RoundTrip B6Winding Export\nCHECK_DEADLOCK FALSE\n" % pts)


def run(ctx):
    rng = random.Random(ctx.seed)
    r = ctx.tlc("TileCmd", cfg_text=cfg(ctx.pick("SmallPts", "DefaultPts")))
    tlc_inputs = r.lines.get("CASE", [])
    if len(tlc_inputs) < 30:
        raise Inconclusive("too few inputs exported by TLC: %d" % len(tlc_inputs))
    binary = ctx.go_build("vh-formats")

    cases = []
    # binding A: every single-geometry input of the model on the real encoder (model coordinates are
    # scaled into a tile: pixel = 2000 + 150 * model coordinate)
    for i, c in enumerate(tlc_inputs):
        rings = [[[2000 + 150 * p[0], 2000 + 150 * p[1]] for p in ring] for ring in c["rings"]]
        z = [12, 14, 17][i % 3]
        cases.append({"id": len(cases), "z": z, "x": (1 << z) // 2 - 3 + i % 5, "y": (1 << z) // 3 + i % 7,
                      "layers": [{"name": "m", "features": [{"kind": c["kind"], "rings": rings, "tags": {"k": "v%d" % (i % 3)}, "fid": i}]}]})
        ctx.distinct_cases.add("tlc:" + canon([c["kind"], c["rings"]]))
    n_tlc = len(cases)
    # seeded tiles
    for _ in range(ctx.pick(400, 6000)):
        t = gen_tile(rng, small=True)
        t["id"] = len(cases)
        cases.append(t)
    for _ in range(ctx.pick(40, 600)):
        t = gen_tile(rng, small=False)
        t["id"] = len(cases)
        cases.append(t)
    for t in cases[n_tlc:]:
        for l in t["layers"]:
            for f in l["features"]:
                ctx.distinct_cases.add(sig(f))
    ctx.sample(cases[0])
    ctx.sample({"z": cases[n_tlc]["z"], "x": cases[n_tlc]["x"], "y": cases[n_tlc]["y"], "layers": cases[n_tlc]["layers"]})
    vs = ctx.run_cases(binary, "tile", cases, timeout_ms=60000, name="tile")
    ctx.absorb(vs, case_of=lambda i: cases[i])

    # Encoder.Tag with string / int / int64 values over several features of one layer
    tcases = []
    for _ in range(ctx.pick(200, 3000)):
        feats = []
        for _f in range(rng.choice([1, 2, 3])):
            ops = []
            for _o in range(rng.choice([0, 1, 2, 4])):
                t = rng.choice(["s", "i", "l"])
                op = {"k": rng.choice(STR[1:]), "t": t, "s": "", "n": 0}
                if t == "s":
                    op["s"] = rng.choice(STR)
                else:
                    op["n"] = rng.choice([0, 1, -1, 12, 16, 12, -(1 << 31), (1 << 31) - 1] + ([(1 << 62), -(1 << 62)] if t == "l" else []))
                ops.append(op)
            feats.append(ops)
        tcases.append({"id": len(tcases), "features": feats})
        ctx.distinct_cases.add("tags:" + canon([[(o["t"], o["k"]) for o in f] for f in feats]))
    tv = ctx.run_cases(binary, "tiletags", tcases, name="tiletags")
    ctx.absorb(tv, case_of=lambda i: tcases[i])

    # binding B: the recorded command streams validated by the specification's decoder
    recs = []
    big = 0
    for v in vs:
        obs = v.get("obs")
        if not isinstance(obs, dict):
            continue
        for rec in obs.get("trace", []):
            if all(len(rg) <= 24 for rg in rec["rings"]):
                recs.append(rec)
            else:
                big += 1
    if len(recs) < 50:
        if ctx.failures:
            ctx.note("too few trace records (%d) because cases failed; trace validation skipped" % len(recs))
            recs = []
        else:
            raise Inconclusive("too few trace records: %d" % len(recs))
    limit = ctx.pick(1500, 12000)
    rng.shuffle(recs)
    recs = recs[:limit]
    if recs:
        text = "".join(json.dumps(rec, separators=(",", ":")) + "\n" for rec in recs)
        tr = ctx.tlc("TileCmdTrace", "TileCmdTrace.cfg", files={"trace.ndjson": text}, expect_violation=True, workers=1)
        if tr.violated:
            import re
            m = re.findall(r"/\\ l = (\d+)", tr.out)
            line = int(m[-1]) if m else 0
            bad = recs[line - 1] if 0 < line <= len(recs) else None
            ctx.fail("trace rejected by TileCmdTrace: %s rings=%s" % (bad["k"] if bad else "?", [len(x) for x in bad["rings"]] if bad else "?"),
                     "TLC rejects line %d of the recorded trace (the specification's decoder does not reproduce the projected rings / windings): %s"
                     % (line, json.dumps(bad)[:600]), {"trace_line": bad})
        else:
            ctx.traces_validated += len(recs)
        ctx.extra_cov["trace_records_validated_by_tlc"] = len(recs)
        ctx.extra_cov["trace_records_too_large_for_tlc"] = big
        ctx.sample({"trace_record": recs[0]})
    if recs and not ctx.quick:
        # self-test of binding B (thorough tier): one altered command integer must be rejected
        bad = [dict(x) for x in recs[:40]]
        k = next((i for i, x in enumerate(bad) if x["k"] == "polygon"), 0)
        g = list(bad[k]["g"])
        g[1] ^= 2
        bad[k]["g"] = g
        st = ctx.tlc("TileCmdTrace", "TileCmdTrace.cfg", files={"trace.ndjson": "".join(json.dumps(x) + "\n" for x in bad)},
                     expect_violation=True, workers=1, count=False, quiet=True)
        if not st.violated:
            raise Inconclusive("binding self-test: TLC accepted a corrupted command stream")
        ctx.extra_cov["binding_selftest"] = "corrupted command integer rejected by TileCmdTrace (deadlock at the altered line)"
    # self-test of binding A
    sc = dict(cases[n_tlc])
    sc["corrupt"] = True
    sc["id"] = 0
    sv = ctx.run_cases(binary, "tile", [sc], name="tile-selftest")
    if sv[0].get("ok"):
        raise Inconclusive("binding self-test: adapter accepted a corrupted expectation")

    ctx.extra_cov["tlc_inputs_executed_on_impl"] = n_tlc
    return ctx.finish(
        "model_checking",
        rule="(a) every single-geometry input enumerated by TLC from TileCmd.tla (points, 2-3 vertex lines, non-degenerate "
             "triangles over a 3-4 point grid incl. negative and zero deltas) encoded by renderer.EncodeTile and decoded; "
             "(b) seeded tiles (zoom 10-18, 1-3 layers, 0-4 features each: points, lines of 2..999 vertices incl. repeated "
             "vertices, star-shaped polygons of 3..1000 vertices with 0-3 holes, islands inside holes (nesting depth up to 3), either input orientation, 0-4 string tags, "
             "optional id); (c) Encoder.Tag sequences with string/int/int64 values. Every feature is decoded by the Go decoder "
             "and compared with the projected rings, windings and tags; a seeded subset (rings <= 24 vertices) is validated by "
             "TLC. distinct = distinct (kind, ring lengths, tag count) signatures + distinct TLC inputs + distinct tag-op shapes.",
        assumptions=[
            "the feature's projected integer coordinates are int(TileMercatorProjection.Project(vertex)) - tile origin (the "
            "encoder's own projection; s2 and the projection are trusted)",
            "polygons: rings compare as vertex cycles (any start, either direction); required: all outer rings one shoelace "
            "sign, all holes the opposite sign",
            "rings of more than 1000 vertices (simplified by the encoder) and geometry outside the tile are out of scope",
        ],
        exhaustive=False)


def replay(ctx, obj):
    """Re-run the one case recorded in a replay file."""
    rep = obj.get("replay") or {}
    case = dict(rep.get("case") or {})
    if not case:
        raise Inconclusive("replay file has no case (trace rejections are replayed by re-running the check)")
    case["id"] = 0
    binary = ctx.go_build("vh-formats")
    adapter = "tiletags" if "features" in case else "tile"
    vs = ctx.run_cases(binary, adapter, [case], name="replay")
    ctx.absorb(vs, case_of=lambda i: case)
    ctx.sample(case)
    return ctx.finish("exploration", rule="replay of one recorded case on the real encoder")
