"""C11 -- every compact record kind round-trips through its codec.
Spec: Codec.tla (shape grammar + W-bit miniature of the wire format); binding A: every shape TLC enumerates
is instantiated with 64-bit values and executed on every exported Marshal/Unmarshal pair it fits."""
import json
import random

from vlib import canon, Inconclusive

META = {
    "engine": "codec",
    "level": "exploration",
    "text": "Codec.tla states the codec contract (decoded value = encoded value, consumed = written, at any offset, whatever "
            "follows) and TLC checks it exhaustively on a 3-bit-word miniature of the wire format for every enumerated record "
            "shape; that part is a check of the format's DESIGN.  The claim about the Go code is exploration: every shape TLC "
            "enumerates (namespace of each reference relative to the field's primary, value class incl. bit 63 / max, delta "
            "sign and magnitude, list lengths 0..3, the three area-geometry encodings, relation primaries) is concretised to "
            "several 64-bit instances in three namespace layouts and run through every exported Marshal/Unmarshal pair, with "
            "the equations judged in Go.  Encode/decode fidelity is the weakest fit of TLA+: the spec contributes the "
            "structured input space and the oracle, not a proof about bytes.",
    "note": "Bounds: lists <= 3, polygons <= 3, tags <= 2 per record, 8 value classes, 6 lat/lng classes, 3 namespace layouts "
            "(OSM, one shared namespace, 8100 namespaces).  Domain restrictions (what the format cannot represent): string ids, "
            "roles < 2^62, keys/counts/indices < 2^63, valid E7 coordinates, reference-valued single tags are not generated. "
            "Namespace tables and token maps: shapes only, no wire model.  Trusted: TLC, the Go adapter's projections.",
    "technique": "TLA+ spec (Codec) + TLC exhaustive on a miniature; every enumerated shape executed on the real codecs",
}

KINDS_QUICK = None  # all kinds in the cfg


def _register(ctx, verdicts, cases):
    """Like ctx.absorb, but a case can carry several distinct failures (obs.failures): register each."""
    for v in verdicts:
        ctx.evaluations += 1
        for k, n in (v.get("stats") or {}).items():
            ctx.extra_cov[k] = ctx.extra_cov.get(k, 0) + n
        if v.get("ok"):
            continue
        case = cases[v["id"]]
        fs = ((v.get("obs") or {}).get("failures") if isinstance(v.get("obs"), dict) else None) or \
            [{"key": v.get("key") or "unknown", "msg": v.get("msg", "")}]
        for f in fs:
            ctx.fail(f["key"], f["msg"], {"case": case, "adapter": "codec", "binary": "vh-codec"})


def run(ctx):
    cfg = ctx.pick("Codec.cfg", "CodecThorough.cfg")
    r = ctx.tlc("Codec", cfg, heap="3g", workers=8)
    shapes = r.lines.get("CASE", [])
    kinds = {}
    for s in shapes:
        kinds[s["kind"]] = kinds.get(s["kind"], 0) + 1
    need = {"refs", "lls", "mixed", "bits", "tags", "members", "geom", "plh", "commonpoint", "fullpoint", "path", "area",
            "relation", "nstable", "tokenmap"}
    if need - set(kinds) or len(shapes) < 5000:
        raise Inconclusive("shape export incomplete: %s" % kinds)
    binary = ctx.go_build("vh-codec")
    variants = ctx.pick(1, 3)
    cases = []
    for s in shapes:
        cases.append({"id": len(cases), "kind": s["kind"], "shape": s["shape"], "variants": variants})
        ctx.distinct_cases.add(canon([s["kind"], s["shape"]]))
    rng = random.Random(ctx.seed)
    for i in rng.sample(range(len(cases)), 4):
        ctx.sample({"kind": cases[i]["kind"], "shape": cases[i]["shape"]})
    vs = ctx.run_cases(binary, "codec", cases, timeout_ms=120000)
    _register(ctx, vs, cases)
    ctx.traces_validated = len(cases)      # behaviours (encode/decode of one shape) replayed on the implementation

    # binding self-test: falsify the expectation of a few cases; the adapter must reject every one of them
    probe = [dict(cases[i], id=n, corrupt=True) for n, i in enumerate(
        [next(j for j, c in enumerate(cases) if c["kind"] == k and c["shape"]) for k in ("refs", "bits", "relation", "plh")])]
    pv = ctx.run_cases(binary, "codec", probe, timeout_ms=120000, name="selftest")
    if any(v.get("ok") for v in pv):
        raise Inconclusive("binding self-test failed: a corrupted expectation was accepted")
    ctx.extra_cov["selftest_corrupted_cases_rejected"] = len(pv)
    ctx.extra_cov["shapes_by_kind"] = kinds
    return ctx.finish(
        "exploration",
        rule="TLC enumerates every record shape of Codec.tla within the constants of %s (reference lists: every "
             "combination of {field primary, sibling primary, non-primary namespace} x 8 value classes up to length 2 and a "
             "subset at length 3; mixed lists, bit vectors of lengths 0..17, tags with string/point/lat-lng list/reference "
             "list/mixed values, members, the three area geometry encodings, point/path/area/relation records, posting-list "
             "headers, namespace-table inputs, token-map sizes) and checks RoundTrip and Framing on the miniature; each shape "
             "is one case, executed with %d concretisations x 3 namespace layouts on every exported Marshal/Unmarshal pair the "
             "shape fits (standalone codec, WithoutLength variants, UnmarshalAreaGeometry, record embeddings, Marshalled* "
             "views), each as exact slice / with trailing bytes / at offset 7 of a larger buffer / into a reused receiver. "
             "distinct = distinct (kind, shape)." % (cfg, variants + 1),
        assumptions=[
            "a value is compared through a projection of its exported fields; nil and empty slices are the same value",
            "PointReferences.Marshal and Path.Marshal sort their lists in place ('order is not important'): the encoded value is "
            "the sorted one and must be a permutation of the input",
            "string ids and roles below 2^62, keys/counts/indices below 2^63 (EncodeValueType / role packing panic or wrap above)",
            "decoding into a reused receiver is part of the contract (every Unmarshal contains explicit reuse code)",
        ],
        exhaustive=False)


def replay(ctx, rep):
    case = rep["replay"]["case"]
    binary = ctx.go_build("vh-codec")
    vs = ctx.run_cases(binary, "codec", [dict(case, id=0)], timeout_ms=120000)
    _register(ctx, vs, [case])
    return ctx.finish("exploration", rule="replay of one recorded case", exhaustive=False)
