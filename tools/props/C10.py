"""C10 -- bit-packed identifiers decode to what was packed.

The Go bodies of the pack/unpack functions are translated (go/ast, harness/cmd/vh-bitpack) from /repo's
CURRENT working tree into TLA+ integer arithmetic, one module per function pair and concrete layout, and
Apalache decides  Unpack(Pack(x)) = x  for EVERY x of the domain symbolically.  A counterexample is only a
candidate: it is executed on the real functions; the real functions also run on boundary vectors, and the
same vectors go through the translated formulas (translation validation)."""
import concurrent.futures
import glob
import json
import os
import re
import shutil
import subprocess
import time

from vlib import Inconclusive, SPEC, B6, canon

META = {
    "engine": "bitpack",
    "level": "proof",
    "text": "For every function pair and every concrete layout (zigzag 64/32, type+namespace, value type, geometry "
            "length, bucket headers for every (bucketBits, tagBits) the builder creates, tile IDs per zoom 0..29, "
            "lat/lng IDs, GB postcodes per length, ONS codes) Apalache proves Unpack(Pack(x)) = x for ALL x of the "
            "domain over unbounded integers with explicit wrap-around; the formulas are generated from the Go AST of "
            "the current tree, so a code change changes the proof obligation. Refuted obligations are executed on the "
            "real functions before they count.",
    "note": "Trusted base: the go/ast->TLA+ translator (cross-checked on every run: the translated formulas evaluated "
            "on the boundary vectors must equal the real functions' outputs, and Apalache checks the emitted text "
            "against real outputs via the constant invariant Vectors), Apalache 0.58 + z3. GB postcode and ONS code "
            "functions (rune loop, Atoi/Sprintf) are HAND transcriptions (spec/BitPackPostcode.tla, BitPackONS.tla), "
            "bound to the code by real-function vectors (every alphabet position in every slot) and a source hash: a "
            "change the vectors do not see is reported as inconclusive, not proved. Domains: those the code enforces "
            "(panics become preconditions) plus type < 7, namespace < 2^13, value types 0..2, geometry length < 2^60 "
            "(slice of >= 8-byte elements), x,y < 2^z, z <= 29, bucketBits 1..40.",
    "technique": "go/ast -> TLA+ integer arithmetic (generated per layout) + Apalache symbolic check of RoundTrip; "
                 "counterexamples and boundary vectors executed on the real functions",
}

# source hashes of the two hand-transcribed function pairs at the time of transcription
HAND_HASH = {"postcode": "2ecabd62b5e77bdc", "ons": "dd57a57be8a8d01d"}
HAND_INV = {"postcode": lambda p: "RoundTrip%d" % p["n"], "ons": lambda p: "RoundTrip"}

APALACHE_TIMEOUT = 900


def iname(pair, params):
    if not params:
        return pair
    return pair + "[" + ",".join("%s=%d" % (k, params[k]) for k in sorted(params)) + "]"


def apalache(workdir, tla, invs, timeout=APALACHE_TIMEOUT):
    """Run apalache-mc on <workdir>/<tla> for the invariants (in order).  Returns a dict:
    status = proved | violated | error | timeout; inv = index of the violated invariant; cex = {var: int}."""
    mod = tla[:-4]
    out = os.path.join(workdir, "out", mod + "-" + invs[-1])
    tmp = os.path.join(workdir, "tmp", mod + "-" + invs[-1])
    os.makedirs(tmp, exist_ok=True)
    env = dict(os.environ)
    env["TMPDIR"] = tmp
    env["JVM_ARGS"] = "-Xmx1500m -XX:ActiveProcessorCount=2"
    env["JVM_GC_ARGS"] = "-XX:+UseSerialGC"
    cmd = ["apalache-mc", "check", "--length=0", "--init=Init", "--inv=" + ",".join(invs), "--out-dir=" + out,
           tla]
    t0 = time.time()
    res = {"cmd": " ".join(cmd[:5] + [tla]), "module": mod, "invs": invs}
    try:
        p = subprocess.run(cmd, cwd=workdir, env=env, stdout=subprocess.PIPE, stderr=subprocess.STDOUT, text=True,
                           errors="replace", timeout=timeout, start_new_session=True)
    except subprocess.TimeoutExpired:
        subprocess.run(["pkill", "-f", tmp])
        res.update(status="timeout", wall=time.time() - t0, out="")
        return res
    res["wall"] = time.time() - t0
    res["out"] = p.stdout[-3000:]
    shutil.rmtree(tmp, ignore_errors=True)
    if "The outcome is: NoError" in p.stdout:
        res["status"] = "proved"
        return res
    m = re.search(r"state invariant (\d+) violated", p.stdout)
    if m and "The outcome is: Error" in p.stdout:
        res["status"] = "violated"
        res["inv"] = int(m.group(1))
        cex = {}
        for f in glob.glob(os.path.join(out, "**", "violation1.itf.json"), recursive=True):
            try:
                st = json.load(open(f))["states"][0]
            except Exception:
                continue
            for k, v in st.items():
                if k.startswith("#"):
                    continue
                if isinstance(v, dict) and "#bigint" in v:
                    cex[k] = int(v["#bigint"])
                elif isinstance(v, int):
                    cex[k] = v
            break
        res["cex"] = cex
        return res
    res["status"] = "error"
    return res


def apalache_parallelism():
    """4 Apalache JVMs at a time on a busy machine, 8 when it is idle (each run is ~5 CPU-seconds)."""
    if os.environ.get("C10_APALACHE_PAR"):
        return int(os.environ["C10_APALACHE_PAR"])
    try:
        return 8 if os.getloadavg()[0] < 8 else 4
    except OSError:
        return 4


def instances_for(ctx, layouts):
    lts = [tuple(x) for x in layouts["layouts"]]
    inst = [("zigzag64", {}), ("zigzag32", {}), ("typens", {}), ("valuetype", {}), ("geometry", {}), ("geomvalue", {}),
            ("latlng", {})]
    for b, t in lts:
        if b <= 3 or not ctx.quick:
            inst.append(("bucketheader", {"b": b, "t": t}))
    for z in (ctx.pick([0, 29], list(range(0, 30)))):
        inst.append(("tile", {"z": z}))
    for n in (5, 6, 7):
        inst.append(("postcode", {"n": n}))
    inst.append(("ons", {}))
    return inst


def run(ctx):
    binary = ctx.go_build("vh-bitpack")
    lay, _ = ctx.run_tool(binary, ["layouts", "--maxlog", "40"])
    if not lay:
        raise Inconclusive("vh-bitpack layouts printed nothing")
    layouts = lay[0]
    if not layouts["bucket_bits"] or min(layouts["bucket_bits"]) < 1:
        raise Inconclusive("unexpected bucket bits from the builder: %r" % layouts["bucket_bits"])
    ctx.note("layouts the index builder creates (asked of compact.bucketBitsForCount / tagBits / NewUint64MapBuilder): "
             "bucketBits %d..%d x tagBits %s -> %d layouts, smallest %s"
             % (min(layouts["bucket_bits"]), max(layouts["bucket_bits"]), layouts["tag_bits"], len(layouts["layouts"]),
                layouts["layouts"][:4]))
    insts = instances_for(ctx, layouts)
    inconclusive = []

    # ---- 1. the real functions on boundary vectors; the same vectors through the translated formulas
    cases = [{"id": i, "pair": p, "params": q, "src": B6, "n": ctx.pick(40, 300)} for i, (p, q) in enumerate(insts)]
    vs = ctx.run_cases(binary, "real", cases, timeout_ms=ctx.pick(60000, 240000), workers=4)
    translated_ok = {}
    for v in vs:
        p, q = insts[v["id"]]
        name = iname(p, q)
        obs = v.get("obs")
        if not isinstance(obs, dict) or "vectors" not in obs:
            # the worker crashed or timed out on pure integer functions: that is an observation about the real code
            ctx.evaluations += 1
            ctx.fail("%s %s" % (name, v.get("key")), v.get("msg", ""), {"case": cases[v["id"]], "verdict": v})
            continue
        n = obs["vectors"]
        ctx.evaluations += n
        for k in range(n):
            ctx.distinct_cases.add("%s#%d" % (name, k))
        ctx.extra_cov["vectors_also_through_translation"] = ctx.extra_cov.get("vectors_also_through_translation", 0) + obs.get("ir_checked", 0)
        for s in obs.get("samples") or []:
            if v["id"] % 5 == 0:
                ctx.sample({"instance": name, "real_functions_on": s})
        for f in obs.get("failures") or []:
            ctx.fail(f["key"], f["what"], {"pair": p, "params": q, "failure": f})
        if obs.get("mismatches"):
            inconclusive.append("%s: translated formulas disagree with the real functions: %s" % (name, obs["mismatches"][0]))
        if obs.get("translate_error"):
            translated_ok[name] = obs["translate_error"]

    # ---- 2. translate the current tree
    gen = os.path.join(ctx.work, "gen")
    os.makedirs(gen, exist_ok=True)
    for fn in os.listdir(SPEC):
        if fn.startswith("BitPack") and fn.endswith(".tla"):
            shutil.copy(os.path.join(SPEC, fn), gen)
    ifile = os.path.join(ctx.work, "instances.json")
    with open(ifile, "w") as f:
        json.dump([{"pair": p, "params": q} for p, q in insts], f)
    tr, _ = ctx.run_tool(binary, ["translate", "--src", B6, "--out", gen, "--instances", ifile, "--vectors", "12"])
    if len(tr) != len(insts):
        raise Inconclusive("translator answered %d of %d instances" % (len(tr), len(insts)))
    jobs = []
    for t in tr:
        name = t["instance"]
        if t.get("error"):
            inconclusive.append("%s: the translator cannot handle the current source: %s" % (name, t["error"]))
            continue
        if t.get("hand"):
            if t["hash"] != HAND_HASH[t["pair"]]:
                inconclusive.append("%s: the Go source of the hand-transcribed functions changed (hash %s, transcribed %s): "
                                    "spec/BitPack%s.tla must be re-transcribed" % (name, t["hash"], HAND_HASH[t["pair"]],
                                                                                   "Postcode" if t["pair"] == "postcode" else "ONS"))
                continue
            inv = HAND_INV[t["pair"]](t["params"])
        else:
            inv = "RoundTrip"
        jobs.append((t, ["Vectors", inv]))

    # ---- 3. Apalache: canary first, then every obligation (parallel)
    results = {}
    with concurrent.futures.ThreadPoolExecutor(max_workers=apalache_parallelism()) as ex:
        futs = {}
        futs[ex.submit(apalache, gen, "BitPackCanary.tla", ["SymbolicFloor"])] = "canary-true"
        futs[ex.submit(apalache, gen, "BitPackCanary.tla", ["Falsifiable"])] = "canary-false"
        for t, invs in jobs:
            futs[ex.submit(apalache, gen, os.path.basename(t["file"]), invs)] = t["instance"]
        for fu in concurrent.futures.as_completed(futs):
            results[futs[fu]] = fu.result()
    ct, cf = results.pop("canary-true"), results.pop("canary-false")
    if ct["status"] != "proved" or cf["status"] != "violated" or cf.get("cex", {}).get("x") != 3:
        raise Inconclusive("Apalache canary failed (true invariant: %s, false invariant: %s %s)\n%s\n%s" % (
            ct["status"], cf["status"], cf.get("cex"), ct.get("out", "")[-800:], cf.get("out", "")[-800:]))
    ctx.checker_cmds.append("apalache-mc check --length=0 --init=Init --inv=Vectors,RoundTrip <generated module>.tla  (x%d)" % len(jobs))

    obligations = len(insts)
    proved, refuted = [], []
    confirm = []
    tmap = {t["instance"]: t for t in tr}
    for name, r in sorted(results.items()):
        t = tmap[name]
        if r["status"] == "proved":
            proved.append(name)
        elif r["status"] == "violated" and r.get("inv") == 1 and r.get("cex"):
            cex = r["cex"]
            inp = {}
            for k, val in cex.items():
                inp[k[2:] if k.startswith("i_") else k] = str(val)
            confirm.append({"id": len(confirm), "pair": t["pair"], "params": t["params"], "input": inp, "instance": name})
        elif r["status"] == "violated" and r.get("inv") == 0:
            inconclusive.append("%s: the generated/transcribed TLA+ disagrees with what the real functions returned (invariant Vectors)" % name)
        else:
            inconclusive.append("%s: apalache %s: %s" % (name, r["status"], r.get("out", "")[-600:]))
    for t, _ in jobs[2:9:3]:
        ctx.samples.insert(0, {"obligation": t["instance"], "module": t["module"], "result": results[t["instance"]]["status"],
                               "cmd": results[t["instance"]]["cmd"]})

    # ---- 4. counterexamples are candidates: run them on the real functions
    if confirm:
        cv = ctx.run_cases(binary, "confirm", confirm, timeout_ms=60000, name="confirm")
        for v in cv:
            c = confirm[v["id"]]
            ctx.evaluations += 1
            if v.get("ok"):
                inconclusive.append("%s: Apalache counterexample %s does NOT fail on the real functions (translation too strict?)"
                                    % (c["instance"], c["input"]))
            elif str(v.get("key", "")).startswith("harness"):
                inconclusive.append("%s: could not replay the counterexample %s: %s" % (c["instance"], c["input"], v.get("msg")))
            else:
                refuted.append(c["instance"])
                ctx.fail(v["key"], v.get("msg", ""), {"pair": c["pair"], "params": c["params"], "apalache_counterexample": c["input"],
                                                      "verdict": v})
                ctx.samples.insert(0, {"obligation": c["instance"], "result": "refuted", "apalache_counterexample": c["input"],
                                       "real_functions": (v.get("obs") or {}).get("failure", {}).get("what")})
    ctx.extra_cov["refuted_and_confirmed_on_real_code"] = sorted(refuted)
    ctx.extra_cov["proved"] = len(proved)
    ctx.extra_cov["apalache_cpu_wall_s"] = round(sum(r.get("wall", 0) for r in results.values()), 1)
    for msg in inconclusive:
        ctx.note("INCONCLUSIVE: " + msg[:600])

    rc = ctx.finish(
        "proof",
        rule="one proof obligation per function pair and concrete layout (%d this run): RoundTrip == Pre => Unpack(Pack(x)) = x "
             "over the whole input domain, generated from the Go AST of the current tree and decided by Apalache; "
             "evaluations = input vectors executed on the REAL functions (boundary values: lo/hi/0/2^k-1/2^k/2^k+1 of every input "
             "crossed with the other inputs, plus seeded random values; + replayed counterexamples); distinct = distinct "
             "(instance, input vector) pairs" % obligations,
        assumptions=["domains: type 0..6, namespace < 2^13, value type 0..2 and v accepted by EncodeValueType, geometry encoding 0..2 "
                     "and length < 2^60, tag < 2^tagBits, length >= 0, x,y < 2^z with z <= 29, all int32 E7 pairs, postcodes of 5..7 "
                     "characters 0-9A-Z, ONS letter A..Z + 8 digits + year 1900..2155",
                     "bucket layouts: bucketBits = bucketBitsForCount(count) for counts up to 2^40, tagBits from compact.tagBits (0 and 2)",
                     "binary.PutUvarint/Uvarint are an identity channel for uint64 values",
                     "postcode and ONS functions are hand transcriptions bound by vectors and a source hash"],
        explanation="discharged = obligations Apalache proved; the remaining ones were refuted by a counterexample that was then "
                    "reproduced on the real functions (listed in refuted_and_confirmed_on_real_code; known findings with fixes in "
                    "/verif/fixes/C10-*.diff). Nothing is left undecided unless the run is inconclusive (exit 2).",
        exhaustive=False,
        trusted_base=["vh-bitpack go/ast->TLA+ translator (validated per run on vectors against the real functions)",
                      "Apalache 0.58", "z3", "hand transcriptions BitPackPostcode.tla / BitPackONS.tla (vectors + source hash)"],
        obligations=obligations, discharged=len(proved))
    if rc == 0 and inconclusive:
        raise Inconclusive("; ".join(m[:300] for m in inconclusive[:4]))
    if rc == 0 and len(proved) + len(set(refuted)) != obligations:
        raise Inconclusive("%d obligations, %d proved, %d refuted" % (obligations, len(proved), len(set(refuted))))
    return rc


def replay(ctx, obj):
    """Re-run the minimal failing input of a recorded violation on the real functions."""
    rep = obj.get("replay") or {}
    binary = ctx.go_build("vh-bitpack")
    f = rep.get("failure") or ((rep.get("verdict") or {}).get("obs") or {}).get("failure")
    if not f:
        return run(ctx)
    case = {"id": 0, "pair": rep["pair"], "params": rep["params"], "input": f["minimal"]}
    v = ctx.run_cases(binary, "confirm", [case], name="replay")[0]
    ctx.evaluations += 1
    if not v.get("ok"):
        ctx.fail(v["key"], v.get("msg", ""), {"pair": rep["pair"], "params": rep["params"], "failure": (v.get("obs") or {}).get("failure")})
    ctx.sample(case)
    return ctx.finish("proof", rule="replay of one recorded input on the real functions", obligations=1,
                      discharged=1 if v.get("ok") else 0, trusted_base=[])
