"""C06 -- search iterators implement sorted-set algebra under any call sequence.
Spec: SortedIter.tla (+ MCSortedIter.tla query sets, TraceSortedIter.tla); harness: cmd/vh-iter."""
import json
import os

from vlib import canon, Inconclusive
from props import iterlib
from props.iterlib import Model, Collector, c06_profiles

META = {
    "engine": "iter",
    "level": "model_checking",
    "text": "SortedIter.tla (index content, query tree over all/union/intersection/key-range/token-prefix/empty, cursor; "
            "actions Next and Advance(k)) is model-checked exhaustively by TLC (all 512 / 4096 index contents over 3 "
            "tokens, monotonicity, no-skip, strictness, exhaustion properties). TLC exports the denotation of every "
            "query over every index content and the complete cursor graph of every denotation; the REAL queries are "
            "compiled on REAL search.ArrayIndex, search.TreeIndex and compact posting-list indices and EVERY call "
            "sequence of Next/Advance(k) up to a depth is executed and judged against the graph, with a monitor on "
            "every node of the iterator tree (so the calls unions/intersections make internally to their children "
            "are judged too). Random large indices and query trees are recorded and judged by TLC (trace validation).",
    "note": "Small scope for the exhaustive part: 3-4 keys, 3 tokens, query depth <= 2, call sequences <= 2-4 calls; "
            "random part: up to thousands of keys, depth <= 3. Use of an iterator after it returned false is "
            "unspecified and never generated. Empty intersections are not generated (the code indexes iterators[0]). "
            "Trusted: TLC, the Go adapter (monitors are pass-through wrappers; a share of the cases runs without them).",
    "technique": "TLA+ spec (SortedIter) + TLC exhaustive; denotations and cursor graphs replayed on the real "
                 "iterators (binding A) + TLC trace validation of recorded random runs (binding B)",
}

# (kind, profile, variant) executed for every index content
QUICK_PLAN = [
    ("array", "small", {"order": "shuffle", "cores": 2}),
    ("tree", "small", {"order": "shuffle", "churn": True}),
    ("compact", "groups", {"keep_empty": True, "extra_ns": True}),
]
THOROUGH_PLAN = QUICK_PLAN + [
    ("compact", "small", {"keep_empty": True}),
    ("compact", "groups", {"keep_empty": False, "extra_ns": False}),
    ("array", "groups", {"order": "desc", "cores": 1}),
    ("tree", "groups", {"order": "asc"}),
    ("tree", "wide", {"order": "desc", "churn": True}),
    ("compact", "wide", {"keep_empty": True, "extra_ns": True}),
]


K4_PLAN = [
    ("array", "small", {"order": "shuffle", "cores": 2}),
    ("tree", "groups", {"order": "shuffle", "churn": True}),
    ("compact", "groups", {"keep_empty": True, "extra_ns": True}),
]


def build_cases(ctx, model, mpath, plan, n, depth, deep, cases, bare_share=4):
    """depth for every index content; `deep` = (share, depth): one in `share` index contents (seeded) goes deeper."""
    profiles = c06_profiles(n)
    for ik in sorted(model.indices):
        idx = model.indices[ik]
        d = depth
        if deep and (iterlib.hash_str(ik) + ctx.seed) % deep[0] == 0:
            d = deep[1]
        for kind, prof, variant in plan:
            v = dict(variant)
            v["seed"] = ctx.seed * 1000 + (iterlib.hash_str(ik) % 997)
            cases.append({"id": len(cases), "kind": kind, "profile": prof, "variant": v, "table": profiles[prof],
                          "idx": idx, "model_file": mpath, "dens": model.dens[ik], "depth": d, "long": True,
                          "bare": iterlib.pick_bare(ik + kind + prof, ctx.seed, bare_share)})


def walk(ctx, module, cfg, plan, n, depth, deep, tag, col, selftest=False):
    r = ctx.tlc(module, cfg, timeout=1500)
    model = Model(r)
    mpath = model.write(os.path.join(ctx.work, "model-%s.json" % tag))
    binary = ctx.go_build("vh-iter")
    cases = []
    build_cases(ctx, model, mpath, plan, n, depth, deep, cases)
    ctx.note("%s: %d queries x %d index contents, %d cursor-graph edges over %d denotations; %d cases, depth %d%s" % (
        tag, len(model.queries), len(model.indices), model.edges, len(model.graph), len(cases), depth,
        (" (depth %d for one index content in %d)" % (deep[1], deep[0])) if deep else ""))
    vs = ctx.run_cases(binary, "walk", cases, timeout_ms=300000, name="walk-" + tag)
    col.absorb(vs, cases, model, binary=binary)
    for ik in model.indices:
        for qi in range(len(model.queries)):
            ctx.distinct_cases.add((tag, ik, qi))
    if selftest:
        from props.C08 import selftest_walk
        selftest_walk(ctx, binary, cases, col)
    return model, cases


def run(ctx):
    col = Collector(ctx)
    if ctx.quick:
        model, cases = walk(ctx, "MCSortedIter", "SortedIterQuick.cfg", QUICK_PLAN, 5, 2, (8, 3), "k3", col, selftest=True)
    else:
        model, cases = walk(ctx, "MCSortedIter", "SortedIterFull.cfg", THOROUGH_PLAN, 5, 3, (8, 4), "k3", col, selftest=True)
        model4, cases4 = walk(ctx, "MCSortedIter", "SortedIterThorough.cfg", K4_PLAN, 6, 2, (16, 3), "k4", col)
    ctx.sample({"index": cases[137]["idx"], "kind": cases[137]["kind"], "profile": cases[137]["profile"],
                "table": cases[137]["table"], "query": model.queries[200],
                "denotation_mask": cases[137]["dens"][200]})
    # binding B: random large indices / query trees, recorded on the real iterators, judged by TLC
    col.register()
    from props import itertrace
    itertrace.validate(ctx, col, mode="query", runs=ctx.pick(250, 1500), maxkeys=ctx.pick(120, 400),
                       calls=ctx.pick(25, 60), kinds="array,tree,compact")
    ctx.evaluations += col.stats.get("sequences", 0)
    ctx.traces_validated += col.stats.get("sequences", 0)
    return ctx.finish(
        "model_checking",
        rule="binding A: for every index content (all functions 3 tokens -> subsets of 3 (quick) / 4 (thorough) keys) "
             "and every query tree of the exported set (leaves all/absent token/prefixes/empty; unions and "
             "intersections of arity 0-3; key ranges incl. empty, inverted and out-of-universe windows; depth-2 "
             "combinations), on ArrayIndex, TreeIndex (with insert/remove churn) and compact posting lists (one to "
             "three concretisation tables per kind), every sequence of Next / Advance(k), k over all ranks incl. below, "
             "above and between stored keys, up to depth 2 (depth 3 for a seeded eighth of the index contents; "
             "thorough: depth 3 / 4 with 3 keys, 2 / 3 with 4 keys) plus Next-to-the-end runs after every first "
             "call, is executed on a freshly compiled iterator and every result compared with "
             "TLC's cursor graph; every inner node is judged against its own denotation. evaluations = call "
             "sequences executed; distinct = (index content, query) pairs. binding B: random runs judged by TLC.",
        assumptions=["an iterator is never used after Next/Advance returned false (unspecified)",
                     "Value() before the first call is not specified and not read",
                     "intersections have at least one operand",
                     "key-range bounds and Advance targets are values of the index's key type (feature IDs whose "
                     "namespace the compact namespace table knows)",
                     "EstimateLength is not part of the property (only used by the code to order intersections)"],
        exhaustive=True)


def replay(ctx, obj):
    return iterlib.run_replay(ctx, obj)
