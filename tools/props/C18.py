"""C18 -- exported change files reproduce the edited world  (MutableWorld family; see tools/mworld.py)"""
import mworld

META = {
    "engine": "mworld",
    "level": "model_checking",
    "text": "RoundTrip is a stutter step of MutableWorld.tla; after every reachable edit history of scenarios 1-3 the real world's modifications are exported as YAML and applied to a fresh world over the same base, whose complete observation (lookup with tags and geometry, search, enumeration, references) must equal the edited world's; an import that fails is a violation.",
    "note": 'Small scope (<= 13 features on a convex polygon, 3 tag keys, 2 values); self-crossing loops are never generated (validity unspecified in the vendored s2). Trusted: TLC, harness/obs, vh-world. Tag values are the strings x/y here; value-kind classes (strings that look like numbers, lat/lngs, IDs) are exercised by the C18 value-class cases.',
    "technique": "TLA+ spec (MutableWorld) model-checked by TLC; exported state graph replayed on the real worlds",
}


def run(ctx):
    mworld.run_family(
        ctx, "C18", scenarios=[1, 2, 3, 8], impls=['basicmutable', 'overlay-basic', 'overlay-mutable', 'overlay-empty'],
        sections=['roundtrip'],
        select=lambda e: e['ev']['op'] == 'roundtrip',
        end_walks=((500, 7, 'roundtrip'), (8000, 10, 'roundtrip')),
        meta_rule='every RoundTrip transition executed via its shortest prefix on 4 world constructions + random walks',
        assumptions=[], finish=False)
    return value_kinds(ctx)


def value_kinds(ctx):
    """ChangeFile.tla: every (kind, shape) of tag value under every key class, and collections over every sequence of
    key kinds, through the real export/import; the imported world must hold the same values with the same kinds."""
    from vlib import canon
    binary = ctx.go_build("vh-world")
    run = ctx.tlc("ChangeFile", "ChangeFile.cfg", workers=2)
    ctx.tlc("ChangeFile", "ChangeFileQuoted.cfg", workers=2)
    exported = run.lines.get("CASE", [])
    if len(exported) < 100:
        raise Exception("ChangeFile exported too few cases")
    cases = []
    for impl in ("overlay-basic", "basicmutable"):
        for c in exported:
            k = dict(c)
            k.update({"id": len(cases), "impl": impl})
            cases.append(k)
    ctx.sample({"impl": cases[0]["impl"], "case": {x: cases[0][x] for x in cases[0] if x not in ("id",)}})
    vs = ctx.run_cases(binary, "yamlrt", cases, timeout_ms=30000, name="yamlrt")
    for v in vs:
        ctx.evaluations += 1
        c = cases[v["id"]]
        ctx.distinct_cases.add(canon(["yaml", c["impl"], c.get("keyclass"), c.get("value"), c.get("keys")]))
        if not v.get("ok"):
            ctx.fail(v.get("key") or "yaml:unknown", "%s: %s" % (c["impl"], v.get("msg", "")), {"case": c, "verdict": v})
    ctx.traces_validated += len(cases)
    ctx.extra_cov["value_kind_cases"] = len(cases)
    return ctx.finish(
        "model_checking",
        rule="every RoundTrip transition of MutableWorld scenarios 1, 2, 3, 8 via its shortest prefix on 4 world constructions + "
             "random histories closed by a round trip; plus every ChangeFile.tla case (15 value kinds/shapes x 3 key classes, "
             "259 collection key sequences) x 2 world kinds; the imported world is compared with the edited one",
        assumptions=["comparison is imported world vs edited world (real vs real); `all` modulo points without searchable tags"])
