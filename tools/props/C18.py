"""C18 -- exported change files reproduce the edited world  (MutableWorld family; see tools/mworld.py)"""
import mworld

META = {
    "engine": "mworld",
    "level": "model_checking",
    "text": "RoundTrip is a stutter step of MutableWorld.tla; after every reachable edit history of scenarios 1-3 the real world's modifications are exported as YAML and applied to a fresh world over the same base, whose complete observation (lookup with tags and geometry, search, enumeration, references) must equal the edited world's; an import that fails is a violation.",
    "note": 'Small scope (<= 13 features on a convex polygon, 3 tag keys, 2 values); self-crossing loops are never generated (validity unspecified in the vendored s2). Trusted: TLC, harness/obs, vh-world. Tag values are the strings x/y here; value-kind classes (strings that look like numbers, lat/lngs, IDs) are exercised by the C18 value-class cases.',
    "technique": "TLA+ spec (MutableWorld) model-checked by TLC; exported state graph replayed on the real worlds",
}


def run(ctx):
    return mworld.run_family(
        ctx, "C18", scenarios=[1, 2, 3, 8], impls=['basicmutable', 'overlay-basic', 'overlay-mutable', 'overlay-empty'],
        sections=['roundtrip'],
        select=lambda e: e['ev']['op'] == 'roundtrip',
        meta_rule='every RoundTrip transition executed via its shortest prefix on 4 world constructions + random walks',
        assumptions=[])
