"""C22 -- simplification never changes a program's result.
Spec: Lang.tla (meaning of programs, FreeVars), LangGen.tla (programs), LangTrace.tla (judge).
Trace validation: for every program p the harness logs p, q = api.Simplify(p) (the ACTUAL output), VM(p), VM(q);
TLC evaluates the reference interpreter on p and on q and checks Lang(q) = Lang(p), FreeVars(q) <= FreeVars(p)
and VM(q) = VM(p)."""
import copy

from vlib import Inconclusive
from props import lang_common as L

META = {
    "engine": "lang",
    "level": "model_checking",
    "text": "TLC enumerates every program up to a size bound (lambdas using parameters twice, out of order, not at "
            "all, zero-argument calls, pipelines, partial applications, the query-building calls and/or/typed/keyed/"
            "tagged); each is given to the real api.Simplify; the actual output is logged and TLC evaluates the "
            "reference interpreter Lang.tla on the original and on the output: same value / error / function "
            "behaviour (queries by their denotation over a small universe of features), no new free variable. "
            "VM results before and after are compared as well. Seeded random larger programs go the same way.",
    "note": "Bounded program size + sampling; library as in C21 plus the registered query builders. The meaning of a "
            "program is Lang.tla's. Programs whose meaning is undefined there (C21's classes) are not asserted. "
            "Trusted: TLC, the Go adapter (expression <-> JSON).",
    "technique": "TLA+ reference interpreter applied by TLC to the logged output of api.Simplify (trace validation) over "
                 "TLC-enumerated and random programs",
}

FEATURE_TYPES = {"point", "path", "area", "relation", "collection", "expression"}


# ---------------------------------------------------------------------------------------------------------------
# A transcription of api/shell.go Simplify AS IT IS in the pinned tree, used ONLY to name the failure class of a
# case TLC rejected (known-finding keys): when the real output equals this transcription's output, the sites at
# which its eta-reduction fired without a side condition holding are the classes.  It never decides a verdict.
def _simp_query(q):
    if q["op"] in ("and", "or"):
        out = []
        for x in q["qs"]:
            y = _simp_query(x)
            if y["op"] == q["op"]:
                out.extend(y["qs"])
            else:
                out.append(y)
        return {"op": q["op"], "qs": out}
    return q


def _simp(e, notes):
    k = e["k"]
    if k == "call":
        return _simp_call(e, notes)
    if k == "lam":
        return _simp_lam(e, notes)
    if k == "q":
        return L.QLit(_simp_query(e["q"]))
    return e


def _simp_call(e, notes):
    f = _simp(e["f"], notes)
    for i in range(len(e["a"])):          # the Go code stores the simplified arguments into the shared slice
        e["a"][i] = _simp(e["a"][i], notes)
    args = e["a"]
    if not args:
        if f["k"] == "sym":
            if L.ARITY.get(f["n"], 0) > 0:
                return _simp(f, notes)
        elif f["k"] == "lam" and not f["p"]:
            return _simp(f["b"], notes)
    if f["k"] == "sym":
        s = f["n"]
        if s in ("and", "or") and len(args) == 2 and all(a["k"] == "q" for a in args):
            return _simp(L.QLit({"op": s, "qs": [a["q"] for a in args]}), notes)
        if s == "typed" and len(args) == 2 and args[0]["k"] == "str" and args[1]["k"] == "q":
            ty = args[0]["s"] if args[0]["s"] in FEATURE_TYPES else "invalid"
            return _simp(L.QLit(L.Typed(ty, args[1]["q"])), notes)
        if s == "keyed" and len(args) == 1 and args[0]["k"] == "str":
            return _simp(L.QLit(L.Keyed(args[0]["s"])), notes)
        if s == "tagged" and len(args) == 2 and all(a["k"] == "str" for a in args):
            return _simp(L.QLit(L.Tagged(args[0]["s"], args[1]["s"])), notes)
    return {"k": "call", "f": f, "a": args}


def _simp_lam(e, notes):
    body = _simp(e["b"], notes)
    ps = e["p"]
    if body["k"] == "call" and ps:
        i = 0
        while i < len(ps) and i < len(body["a"]):
            a = body["a"][i]
            if a["k"] == "sym" and a["n"] == ps[i]:
                i += 1
            else:
                break
        if i > 0:
            f, rest = body["f"], body["a"][i:]
            used = L.free_syms(f)
            for x in rest:
                used |= L.free_syms(x)
            why = []
            if used & set(ps):
                why.append("parameter-still-used")          # {a -> sub a a} => sub a
            if i < len(ps):
                why.append("parameters-dropped")             # {a,b -> sub a} => sub
            if f["k"] == "sym" and f["n"] in L.VARIADIC:
                why.append("variadic-function")              # {a -> call a 1} => call 1
            elif f["k"] == "sym" and f["n"] in L.ARITY and L.ARITY[f["n"]] != len(body["a"]):
                why.append("function-arity-differs")         # {a -> neg a 5} => neg 5 ; {a -> sub3 a 1} => sub3 1
            elif f["k"] == "lam" and len(f["p"]) != len(body["a"]):
                why.append("function-arity-differs")
            if f["k"] == "call" or any(x["k"] == "call" for x in rest):
                why.append("evaluation-hoisted")             # {a -> sub a (first 1)} => sub (first 1): error moves
            if f["k"] not in ("sym", "lam", "call"):
                why.append("function-is-a-literal")
            notes.extend(why)
            if i == len(body["a"]):
                return _simp(f, notes)
            return _simp_call({"k": "call", "f": f, "a": rest}, notes)
    return e      # the Go code returns the original node: only the argument slices changed in place


def classify(p, q):
    """-> list of failure-class keys for a rejected case (p, q = actual Simplify output)"""
    notes = []
    try:
        model = _simp(copy.deepcopy(p), notes)
    except Exception:  # noqa
        return None
    if L.canon(model) != L.canon(q) or not notes:
        return None
    return sorted(set(notes))


def c22_named():
    a, b = L.Sym("a"), L.Sym("b")
    Lit, Call, Lam = L.Lit, L.Call, L.Lam
    return [
        Lam(["a"], Call("sub", a, a)),                       # parameter used twice
        Lam(["a", "b"], Call("sub", a)),                     # parameter not used at all
        Lam(["a", "b"], Call("sub", b, a)),                  # out of order
        Lam(["a", "b"], Call("sub", a, b)),                  # valid eta: sub
        Lam(["a"], Call("sub", a, Lit(5))),                  # valid: sub 5 (trailing argument bound)
        Call("call", Lam(["a"], Call("sub", a, a)), Lit(3)),
        Call("call", Lam(["a", "b"], Call("sub", a)), Lit(3), Lit(4)),
        Lam(["a"], Call("call", a, Lit(1))),
        Lam(["a"], Call("neg", a, Lit(5))),
        Lam(["a"], Call("sub3", a, Lit(1))),
        Lam(["a"], Call("sub", a, Call("first", Lit(1)))),
        Lam(["a"], Call(Lam(["b"], b), a)),
        Call(Lam([], Lit(5))),                               # zero-argument call of a zero-argument lambda
        Call("sub"),                                         # zero-argument call of a function
        Call(Call("sub"), Lit(1), Lit(2)),
        Call("call", Call("sub"), Lit(1), Lit(2)),
        Call("and", Call("keyed", L.Str("k")), Call("tagged", L.Str("j"), L.Str("v"))),
        Call("or", Call("and", Call("keyed", L.Str("k")), L.QLit(L.Keyed("j"))), Call("typed", L.Str("point"), Call("keyed", L.Str("k")))),
        Call("and", L.QLit(L.And(L.Keyed("k"), L.Keyed("j"))), L.QLit(L.Or(L.Keyed("k"), L.And(L.Keyed("j"), L.Tagged("k", "v"))))),
        Call(Call("and", L.QLit(L.Keyed("k"))), L.QLit(L.Tagged("j", "w"))),     # q | and q2
        Call("call", Lam(["a"], Call("and", a, L.QLit(L.Keyed("k")))), L.QLit(L.Keyed("j"))),
        Lam(["a"], Call("tagged", a, L.Str("v"))),
        Call("call", Lam(["a"], Call("tagged", a, L.Str("v"))), L.Str("k")),
        Call("typed", L.Str("zzz"), L.QLit(L.Keyed("k"))),
        # a trailing argument that is a nested lambda using the OUTER parameter only inside a call in FUNCTION position
        # (the right-hand stage of a pipeline): the outer lambda must not be eta-reduced away
        Call("call", Lam(["c"], Call("applyto", L.Sym("c"), Lam(["a"], Call(Call("sub", L.Sym("c")), a)))), Lit(5)),
        Call("call", Lam(["c"], Call("call", Lam(["c"], Call("applyto", L.Sym("c"), Lam(["a"], Call(Call("sub", L.Sym("c")), a)))),
                                     Lit(5))), Lit(9)),
        Lam(["c"], Call("applyto", L.Sym("c"), Lam(["a"], Call(Call("sub3", L.Sym("c"), a), a)))),
        Call("call", Lam(["c"], Call("applyto", L.Sym("c"), Lam(["a"], Call("sub", a, L.Sym("c"))))), Lit(5)),   # argument position
    ]


def run(ctx):
    jobs = ctx.pick([("simp", 4), ("simptyped", 3), ("query", 4)],
                    [("simp", 4), ("simptyped", 4), ("query", 4)])
    enum = L.enumerate_programs(ctx, jobs, "prog")
    binary = ctx.go_build("vh-lang")
    progs = []
    for job in jobs:
        progs.extend(x["p"] for x in enum[job])
    nenum = len(progs)
    named = c22_named() + L.named_programs()
    progs.extend(named)
    progs.extend(L.random_programs(ctx.seed, ctx.pick(800, 6000), maxdepth=ctx.pick(4, 5), maxsize=ctx.pick(18, 24)))
    progs.extend(L.random_programs(ctx.seed + 7919, ctx.pick(800, 4000), maxdepth=4, maxsize=ctx.pick(18, 24), queries=True))

    cases = [{"id": i, "p": p, "simplify": True} for i, p in enumerate(progs)]
    vs = ctx.run_cases(binary, "observe", cases, name="observe", timeout_ms=30000)
    recs = []
    for v in vs:
        ctx.evaluations += 1
        p = progs[v["id"]]
        if not v.get("ok") or not isinstance(v.get("obs"), dict) or "q" not in v["obs"]:
            key = v.get("key") or "simplify-crash"
            if not key.startswith("simplify-"):
                key = "simplify-observe-" + key
            ctx.fail(key, "program %s: %s" % (L.show(p), v.get("msg", "")[:600]), {"program": L.show(p), "p": p})
            continue
        o = v["obs"]
        recs.append({"id": v["id"], "m": "simp", "p": o["p"], "vp": o["vp"], "q": o["q"], "vq": o["vq"]})

    # binding self-test: a record whose "simplified" program was tampered with must be rejected by TLC
    tamper = {"id": -1, "m": "simp", "p": L.Call("sub", L.Lit(1), L.Lit(2)), "vp": {"t": "int", "v": -1},
              "q": L.Call("sub", L.Lit(2), L.Lit(1)), "vq": {"t": "int", "v": 1}}
    res = L.judge_trace(ctx, recs + [tamper])
    t = res[-1]
    if t.get("eq") or t.get("vmeq"):
        raise Inconclusive("binding self-test: TLC accepted a tampered simplifier output")
    ctx.traces_validated -= 1

    stats = {"unasserted": 0, "changed_by_simplify": 0, "vm_panic_skipped": 0, "query_rewrites": 0}
    for r in recs:
        j = res[r["id"]]
        ptext, qtext = L.show(r["p"]), L.show(r["q"])
        ctx.distinct_cases.add(ptext)
        if ptext != qtext:
            stats["changed_by_simplify"] += 1
            if any(x["k"] == "q" for x in L.subexprs(r["q"])) and len(list(L.subexprs(r["q"]))) < len(list(L.subexprs(r["p"]))):
                stats["query_rewrites"] += 1
        rep = {"program": ptext, "simplified": qtext, "p": r["p"], "q": r["q"], "verdict": j}
        if j.get("bad"):
            ctx.fail("simplify-output-outside-language " + ptext, "Simplify(%s) = %s is not an expression of the language" % (ptext, qtext), rep)
            continue
        if j["u"]:
            stats["unasserted"] += 1
            continue
        if not j["fv"] or not j["eq"]:
            what = []
            if not j["fv"]:
                what.append("leaves a parameter unbound")
            if not j["eq"]:
                what.append("changes the meaning: %s before, %s after" % (j["lp"], j["lq"]))
            msg = "Simplify(%s) = %s %s" % (ptext, qtext, "; ".join(what))
            classes = classify(r["p"], r["q"])
            if classes:
                for c in classes:
                    ctx.fail("simplify-eta-reduction: " + c, msg, rep)
            else:
                ctx.fail("simplify-changed-meaning " + ptext, msg, rep)
            continue
        # the spec says p and q mean the same; the VM must not tell them apart either (VM panics are C21's subject)
        if not j["vmeq"]:
            if L.first_panic(r["vp"]) or L.first_panic(r["vq"]) or j.get("cls") == "pe":
                stats["vm_panic_skipped"] += 1
            elif j["vmp"]:
                ctx.fail("simplify-vm-result-differs " + ptext,
                         "VM(%s) = %s but VM(Simplify = %s) = %s" % (ptext, L.strip_msgs(r["vp"]), qtext, L.strip_msgs(r["vq"])), rep)
    for i in (3, nenum // 2, nenum + 1):
        if i < len(recs):
            ctx.sample({"program": L.show(recs[i]["p"]), "simplified": L.show(recs[i]["q"])})
    ctx.extra_cov.update(stats)
    ctx.extra_cov["enumerated_programs"] = nenum
    ctx.extra_cov["named_and_random_programs"] = len(progs) - nenum
    ctx.extra_cov["enumeration"] = ["%s<=%d: %d" % (j[0], j[1], len(enum[j])) for j in jobs]
    return ctx.finish(
        "model_checking",
        rule="TLC (LangGen) enumerates every closed program up to the size bound of the profiles "
             + ", ".join("%s size<=%d" % j for j in jobs) + " (integer library with lambdas of 0-2 parameters used "
             "twice / out of order / not at all, zero-argument calls, direct and `call` application; query builders "
             "and/or/typed/keyed/tagged over string and query literals), plus named and seeded random programs; each is "
             "simplified by the real api.Simplify, the output logged with VM(p), VM(q), and TLC (LangTrace) evaluates "
             "Lang on p and on the logged q: equal observation (queries by denotation over 18 features), "
             "FreeVars(q) subset FreeVars(p), VM(q) = VM(p). distinct = distinct programs.",
        assumptions=["the meaning of a program is the reference interpreter's (Lang.tla); programs it leaves undefined are not asserted",
                     "queries are compared by denotation over a universe of 18 features (2 types x 2 keys x {absent, 2 values})",
                     "VM(q) = VM(p) is only asserted when neither evaluation panics (VM panics are C21/C23 findings)"],
        exhaustive=True,
        trusted_base=["TLC", "harness/cmd/vh-lang (expression <-> JSON conversion)", "Lang.tla as the meaning of programs"])
