"""C35 -- concurrent readers and parallel builders: every concurrent query returns what it would return alone.
Spec: StaticWorld.tla (a built world has no write action: Next == UNCHANGED vars, so every observation of it is Obs(w))."""
import sworld

META = {
    "engine": "sworld",
    "level": "model_checking",
    "text": "Decides the half of the property a specification bound at call boundaries can state: a world with no writers "
            "answers every query the same whatever is being asked concurrently. StaticWorld.tla has no write action, so "
            "every observation must equal Obs(ValidSubset(source)); TLC enumerates sources, each is built (in parallel: 1 "
            "and 4 goroutines) as a basic and as a compact world, then 8 goroutines observe it 3 times each concurrently in "
            "different probe orders (lookup, tags, path polylines and area polygons through the lazily filled caches, "
            "search, enumeration, references, traversal) and every one of the 24 observations must equal the observation "
            "taken alone, which must equal the specification's. The same driver is also run in a binary built with the "
            "Go race detector; a race report stops the worker and is recorded as an observation (auxiliary monitor).",
    "note": "PARTIAL: 'share no unsynchronised mutable state' is a property of memory accesses and cannot be stated in a "
            "TLA+ specification bound at call boundaries (DESIGN.md section 7); the race-detector run is an auxiliary "
            "monitor over the same specification-generated workloads, not a model-based verdict. Schedules are sampled, "
            "not enumerated. Small scope: 9 IDs per world.",
    "technique": "TLA+ spec (StaticWorld, no write actions) enumerated by TLC; concurrent real observations must all "
                 "equal the sequential one; Go race detector as auxiliary monitor",
}


def run(ctx):
    variants = [{"impl": "concurrent-basic", "cores": 1}, {"impl": "concurrent-basic", "cores": 3}, {"impl": "concurrent-compact", "cores": 4, "max": (8, 100)}]
    interesting = lambda c: any(f["kind"] == "area" for f in c["eff"].values())
    # parallel builders under load (see C36): 150 copies of a source in one compact world, compared token by token with
    # the in-memory builder's world
    def tagged_and_valid(c):
        n = sum(1 for f in c["src"].values() if f["kind"] != "absent" and any(
            k[0] in "#@" and v not in ("-", "") for k, v in f["tags"].items()))
        return not c["dropped"] and n >= 3
    bulk = {"impl": "bulk-compact", "cores": 4, "max": (3, 12), "sections": ["bulk"], "replicas": 150, "only": tagged_and_valid}
    sworld.run_static(
        ctx, "C35", 1, variants=variants + [bulk], sections=["concurrent", "problems", "build", "observe"],
        rule="", max_cases=ctx.pick(24, 300), finish=False, interesting=interesting)
    # under the race detector a compact build takes a minute or two: few of them in the quick tier
    race_variants = variants[:2] + [{"impl": "concurrent-compact", "cores": 4, "max": (3, 60)}]
    return sworld.run_static(
        ctx, "C35", 1, variants=race_variants, sections=["concurrent", "problems", "build", "observe"],
        rule="sources enumerated by TLC (those with an area), each built as basic (1 goroutine) and compact (4 goroutines) "
             "worlds and observed alone and by 8 concurrent goroutines x 3 rounds; run once normally and once under the "
             "race detector; distinct = (impl, cores, source)",
        assumptions=["schedules are sampled by repetition, not enumerated",
                     "the race detector only sees races that occur in the executions driven"],
        max_cases=ctx.pick(12, 150), interesting=interesting, race=True)
