"""C03 -- tag search returns exactly the matching features in ID order  (MutableWorld family; see tools/mworld.py)"""
import mworld

META = {
    "engine": "mworld",
    "level": "model_checking",
    "text": 'World!Den is the denotation of all/tagged/keyed/typed/and/or over current tags; after every transition of scenarios 1-2 (edit histories) FindFeatures for a battery of 12 query trees must return exactly Sorted(Den) on BasicMutableWorld and three overlay constructions.',
    "note": "Small scope (<= 13 features on a convex polygon, 3 tag keys, 2 values); self-crossing loops are never generated (validity unspecified in the vendored s2). Trusted: TLC, harness/obs, vh-world. `all` is compared modulo points without searchable tags (indexing of bare points is unspecified). Static worlds (basic, compact, merged, overlay) are covered by the C16/C17/C02 checks' search sections.",
    "technique": "TLA+ spec (MutableWorld) model-checked by TLC; exported state graph replayed on the real worlds",
}


def run(ctx):
    return mworld.run_family(
        ctx, "C03", scenarios=[1, 2, 5], impls=['basicmutable', 'overlay-basic', 'overlay-mutable', 'overlay-empty'],
        sections=['search'],
        meta_rule='every transition of scenarios 1-2 executed via its shortest prefix on 4 world constructions + random walks; 12 queries per state',
        assumptions=[])
