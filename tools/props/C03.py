"""C03 -- tag search returns exactly the matching features in ID order  (MutableWorld family; see tools/mworld.py)"""
import mworld
import sworld

META = {
    "engine": "mworld",
    "level": "model_checking",
    "text": 'World!Den is the denotation of all/tagged/keyed/typed/and/or over current tags; after every transition of scenarios 1-2 (edit histories) FindFeatures for a battery of 12 query trees must return exactly Sorted(Den) on BasicMutableWorld and three overlay constructions.',
    "note": "Small scope (<= 13 features on a convex polygon, 3 tag keys, 2 values); self-crossing loops are never generated (validity unspecified in the vendored s2). Trusted: TLC, harness/obs, vh-world. `all` is compared modulo points without searchable tags (indexing of bare points is unspecified). Static worlds (basic, compact, compact merged from several files, layered) are included from the StaticWorld family.",
    "technique": "TLA+ spec (MutableWorld) model-checked by TLC; exported state graph replayed on the real worlds",
}


def run(ctx):
    # every world under edits: BasicMutableWorld and three overlay constructions, after every transition
    mworld.run_family(
        ctx, "C03", scenarios=[1, 2, 5], impls=['basicmutable', 'overlay-basic', 'overlay-mutable', 'overlay-empty', 'overlay-compact'],
        sections=['search'], finish=False,
        focused=(120, 800))
    # static worlds: basic, compact, compact merged from several files (incl. files that restate the same points,
    # so that a result comes from three merged iterators), and layered worlds (scenario 2)
    if not ctx.quick:   # layered worlds are C16's quick tier
        sworld.run_static(
            ctx, "C03", 2, variants=[{"impl": "layered-basic"}, {"impl": "layered-mixed", "max": (8, 100)}],
            sections=["search"], rule="", max_cases=ctx.pick(300, None), finish=False)
    return sworld.run_static(
        ctx, "C03", 1,
        variants=[{"impl": "basic", "cores": 2}, {"impl": "compact", "cores": 2, "max": (12, 200)},
                  {"impl": "compact-split", "cores": 1, "split": 1, "max": (8, 100)},
                  {"impl": "compact-split", "cores": 1, "split": 3, "max": (12, 150)}],
        sections=["search"],
        rule='every transition of MutableWorld scenarios 1, 2, 5 executed via its shortest prefix on 4 world constructions + '
             'random walks; every StaticWorld source built as basic / compact / merged compact files / layered worlds; '
             '12 query trees per state, result list compared with Sorted(Den) (order, no duplicates)',
        assumptions=["`all` is compared modulo points without searchable tags"],
        max_cases=ctx.pick(300, None))
