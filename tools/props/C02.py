"""C02 -- compact world answers every query like the in-memory world.  Spec: StaticWorld.tla, scenario 1."""
import sworld

META = {
    "engine": "sworld",
    "level": "model_checking",
    "text": "Both implementations are bound to the same specification world ValidSubset(source) for lookup, tags, geometry, "
            "search and enumeration (C01, C36); for this property the 1080 sources TLC enumerates are additionally built as a "
            "basic world AND a compact world and every read query is compared between the two: lookup and existence, point "
            "locations, tag search (same order), FindReferences, FindRelationsByFeature, FindAreasByPoint and Traverse "
            "segments -- the property is literally 'the same answers', so the comparison is differential.",
    "note": "Reference-family results are compared as sets (order unspecified); collections are left out (not part of the "
            "compact format); spatial search equivalence is C04's. Small scope: 9 IDs. Trusted: TLC, harness/obs, vh-world.",
    "technique": "TLA+ spec (StaticWorld) enumerated by TLC; every case built as basic and compact worlds, all reads compared",
}


def run(ctx):
    import random
    from vlib import canon, Inconclusive
    sections = ["lookup", "search", "each", "refs", "areas", "rels", "traverse", "problems"]
    sworld.run_static(
        ctx, "C02", 1, variants=[{"impl": "diff", "cores": 2, "max": (45, 600)}],
        sections=sections, rule="", max_cases=ctx.pick(500, None), finish=False)
    # mixed geometry and references from two namespaces (scenario 4)
    sworld.run_static(
        ctx, "C02", 4, variants=[{"impl": "diff", "cores": 2, "max": (20, 400)}],
        # Traverse is left out here: on mixed paths the two worlds differ in more ways than the recorded findings name
        # (segments that end at a raw location, relation members as stops); C30 owns traversal
        sections=[x for x in sections if x != "traverse"], rule="", max_cases=ctx.pick(300, None), finish=False)
    # OSM-shaped inputs (OSMMap.tla): way ids and relation ids collide, members are missing, ways are closed / open
    binary = ctx.go_build("vh-world")
    run = ctx.tlc("MCOSMMap", "MCOSMMap.cfg", timeout=1500, workers=4)
    exported = run.lines.get("CASE", [])
    qs = run.lines.get("QUERIES", [None])[0]
    keys = run.lines.get("KEYS", [None])[0]
    ids = run.lines.get("IDS", [None])[0]
    if not exported or qs is None:
        raise Inconclusive("OSMMap exported nothing")
    rng = random.Random(ctx.seed * 7 + 1)
    # prefer inputs in which an id is used by a closed way and by a multipolygon relation at once
    def collides(c):
        ways = c["input"]["ways"]
        rels = c["input"]["rels"]
        for i, r in enumerate(rels):
            if r["type"] != "-" and r["tags"].get("type") == "multipolygon" and i < len(ways):
                w = ways[i]["nodes"]
                if len(w) > 2 and w[0] == w[-1]:
                    return True
        return False
    pri = [c for c in exported if collides(c)]
    rest = [c for c in exported if not collides(c)]
    rng.shuffle(pri)
    rng.shuffle(rest)
    chosen = (pri + rest)[:ctx.pick(40, 576)]
    cases = []
    for c in chosen:
        k = dict(c)
        k.update({"id": len(cases), "impl": "diff", "cores": 2, "keys": keys, "ids": ids, "queries": qs, "sections": sections})
        cases.append(k)
    vs = ctx.run_cases(binary, "osm", cases, timeout_ms=240000, name="osmdiff")
    for v in vs:
        ctx.evaluations += 1
        c = cases[v["id"]]
        ctx.distinct_cases.add(canon(["osmdiff", c["input"]]))
        if v.get("ok"):
            continue
        ms = ((v.get("obs") or {}).get("mismatches")) if isinstance(v.get("obs"), dict) else None
        rep = {"input": c["input"]}
        if ms:
            for m in ms:
                ctx.fail(m["key"], "osm input: [%s] %s" % (m["section"], m["msg"]), dict(rep, mismatch=m))
        else:
            ctx.fail(v.get("key") or "unknown", "osm input: %s" % v.get("msg", ""), dict(rep, verdict=v))
    ctx.traces_validated += len(cases)
    return ctx.finish(
        "model_checking",
        rule="every StaticWorld scenario 1 source and OSMMap input (colliding way/relation ids first) built twice (basic, "
             "compact) and all reads compared; distinct = source / input",
        assumptions=["reference-family results compared as sets", "queries about absent features and FindAreasByPoint of "
                     "non-points are not compared (unspecified)"],
        exhaustive=not ctx.quick)
