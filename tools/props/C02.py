"""C02 -- compact world answers every query like the in-memory world.  Spec: StaticWorld.tla, scenario 1."""
import sworld

META = {
    "engine": "sworld",
    "level": "model_checking",
    "text": "Both implementations are bound to the same specification world ValidSubset(source) for lookup, tags, geometry, "
            "search and enumeration (C01, C36); for this property the 1080 sources TLC enumerates are additionally built as a "
            "basic world AND a compact world and every read query is compared between the two: lookup and existence, point "
            "locations, tag search (same order), FindReferences, FindRelationsByFeature, FindAreasByPoint and Traverse "
            "segments -- the property is literally 'the same answers', so the comparison is differential.",
    "note": "Reference-family results are compared as sets (order unspecified); collections are left out (not part of the "
            "compact format); spatial search equivalence is C04's. Small scope: 9 IDs. Trusted: TLC, harness/obs, vh-world.",
    "technique": "TLA+ spec (StaticWorld) enumerated by TLC; every case built as basic and compact worlds, all reads compared",
}


def run(ctx):
    return sworld.run_static(
        ctx, "C02", 1, variants=[{"impl": "diff", "cores": 2, "max": (45, 600)}],
        sections=["lookup", "search", "each", "refs", "areas", "rels", "traverse", "problems"],
        rule="every source TLC enumerates for scenario 1 built twice (basic, compact) and all reads compared; distinct = source",
        max_cases=ctx.pick(500, None))
