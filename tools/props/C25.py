"""C25 -- map-parallel returns map's results for any core count and schedule.

Spec: MapParallel.tla (dispatcher / workers / errgroup / consumer of api/functions/map.go, one action per channel
operation).  TLC checks PrefixInv, DoneInv, GerrIsItem, NoHang and termination under weak fairness for every
configuration (cores, items, failing subset) and exports the set of observable outcomes (yielded list, nil or the
failing item whose error ends the iteration).  Binding B': map-parallel is evaluated through api.EvaluateString
with an injected native function / a lambda around it, on an input collection whose iterator, the function and the
consuming loop are seeded yield points; every run must satisfy the statement (prefix of map's results, full iff
nothing fails, ends with the error of a failing item, terminates) and, for the configurations TLC explored, be a
member of TLC's outcome set.
"""
import os
import random
import time

from vlib import Inconclusive, canon

META = {
    "engine": "streams",
    "level": "model_checking",
    "text": "MapParallel.tla transcribes mapParallelCollection.run/Next; TLC explores every interleaving for cores 2..3, "
            "<= 4 items (thorough: cores 2..4, <= 5 items) and every failing subset: yielded is always a prefix of "
            "map's results that stops before the first failing item, the iteration ends with nil and everything or with "
            "the error of a failing item, never hangs, terminates under weak fairness. The per-configuration outcome "
            "sets are then the oracle for 10^3 (quick) / 10^4 (thorough) perturbed runs of the real map-parallel; "
            "larger configurations (cores <= 8, <= 200 items) are judged by the statement's rule and against map itself.",
    "note": "Schedules of the real code are sampled (yield/sleep perturbation in the input iterator = dispatcher, the "
            "mapped function = workers, and the consuming loop), not enumerated; no hooks. The function fails by item; an "
            "input collection whose own iterator fails is not explored. Values/keys are ints. Trusted: TLC, the harness.",
    "technique": "TLA+ protocol model (MapParallel) + TLC safety/liveness + outcome sets; outcome membership of real runs",
}


def okey(o):
    res = o["res"] if o["res"] != "err" else "err:%d" % o["erritem"]
    return ",".join(map(str, o["yielded"])) + "|" + res


def ckey(o):
    return canon([o["cores"], o["ni"], sorted(o["fail"])])


def cfg_text(maxn, maxni, maxfail):
    return ("SPECIFICATION Spec\nCONSTANTS\n  MinN = 2\n  MaxN = %d\n  MaxNI = %d\n  MaxFail = %d\n"
            "INVARIANT PrefixInv DoneInv GerrIsItem NoHang\nPROPERTY Terminates\nCHECK_DEADLOCK FALSE\n" % (maxn, maxni, maxfail))


def run_cases_retrying(ctx, binary, adapter, cases, timeout_ms, total_timeout):
    """The adapter's watchdog classifies hangs from goroutine dumps.  The runtime's per-case deadline is only a
    backstop, and on a starved machine it can fire on a healthy case: such cases are run again, alone and with a
    longer deadline, before they count."""
    vs = ctx.run_cases(binary, adapter, cases, timeout_ms=timeout_ms, total_timeout=total_timeout)
    late = [v["id"] for v in vs if v.get("key") == "timeout"]
    if late:
        ctx.note("%d case(s) hit the runtime deadline; re-running them alone" % len(late))
        again = ctx.run_cases(binary, adapter, [cases[i] for i in late], workers=2, timeout_ms=4 * timeout_ms,
                              total_timeout=total_timeout, name="retry")
        byid = {v["id"]: v for v in again}
        vs = [byid.get(v["id"], v) for v in vs]
    return vs


def run(ctx):
    quick = ctx.quick
    os.environ.setdefault("JAVA_TOOL_OPTIONS", "-XX:ParallelGCThreads=2 -XX:TieredStopAtLevel=1")
    t0 = time.time()
    binary = ctx.go_build("vh-streams")
    t1 = time.time()
    if quick:
        r = ctx.tlc("MapParallel", "MapParallel.cfg", workers=4, heap="2g")
    else:
        r = ctx.tlc("MapParallel", cfg_text=cfg_text(4, 5, 3), workers=8, heap="4g", timeout=1800)
    ctx.note("go build %.1fs, TLC %.1fs" % (t1 - t0, time.time() - t1))
    outs = r.lines.get("OUTCOME", [])
    if len(outs) < 50:
        raise Inconclusive("outcome export too small: %d" % len(outs))
    allowed, configs = {}, {}
    for o in outs:
        if o["res"] == "hang":
            raise Inconclusive("MapParallel.tla has a hang outcome: %s" % o)
        allowed.setdefault(ckey(o), set()).add(okey(o))
        configs[ckey(o)] = o
    ctx.extra_cov["model_configs"] = len(configs)
    ctx.extra_cov["model_outcomes"] = sum(len(s) for s in allowed.values())

    rng = random.Random(ctx.seed)
    cases = []

    def add(c):
        c["id"] = len(cases)
        c["quiet_ms"] = ctx.pick(300, 500)
        cases.append(c)

    # 1. every configuration TLC explored, both function kinds, several perturbed schedules each
    reps = ctx.pick(8, 40)
    for k in sorted(configs):
        o = configs[k]
        for fn in ("native", "lambda", "lambda-outer"):
            for rep in range(reps if fn != "lambda-outer" else max(2, reps // 4)):
                add({"cores": o["cores"], "ni": o["ni"], "fail": sorted(o["fail"]), "fn": fn,
                     "seed": rng.randrange(1 << 30), "perturb": [1, 2, 3, 3, 0, 2, 1, 3][rep % 8],
                     "model": True, "allowed": sorted(allowed[k])})
    nmodel = len(cases)
    # 2. larger configurations, judged by the statement (prefix, error of a failing item, full iff nothing fails,
    #    terminates) and against map on the same input
    for _ in range(ctx.pick(400, 4000)):
        cores = rng.choice([2, 3, 4, 5, 6, 7, 8])
        ni = rng.choice([0, 1, 5, 7, 8, 9, 16, 17, 31, 40, 64, 200])
        kind = rng.random()
        if kind < 0.3 or ni == 0:
            fail = []
        elif kind < 0.7:
            fail = [rng.randint(1, ni)]
        else:
            fail = sorted(rng.sample(range(1, ni + 1), min(ni, rng.randint(2, 4))))
        fn = rng.choice(["native", "lambda", "lambda-pure", "lambda-outer", "lambda-lazy"] if not fail
                        else ["native", "lambda", "lambda-outer"])
        add({"cores": cores, "ni": ni, "fail": fail, "fn": fn, "seed": rng.randrange(1 << 30),
             "perturb": rng.choice([0, 1, 2, 3]) if ni < 100 else rng.choice([0, 1, 2]), "model": False})
    ctx.sample({k: v for k, v in cases[nmodel // 2].items()})
    ctx.sample({k: v for k, v in cases[nmodel + 3].items()})

    t2 = time.time()
    vs = run_cases_retrying(ctx, binary, "mappar", cases, ctx.pick(30000, 40000), ctx.pick(1500, 3000))
    ctx.note("%d runs of the real map-parallel: %.1fs" % (len(cases), time.time() - t2))
    for v in vs:
        c = cases[v["id"]]
        if v.get("key") == "timeout":
            v["key"] = "map-parallel:hang:fn=%s:%s" % (c["fn"], "failing" if c["fail"] else "nofail")
            v["msg"] = "map-parallel cores=%d items=%d fail=%s fn=%s seed=%d: %s" % (
                c["cores"], c["ni"], c["fail"], c["fn"], c["seed"], v.get("msg"))
    ctx.absorb(vs, case_of=lambda i: {k: v for k, v in cases[i].items() if k != "allowed"})
    seen = {}
    for v in vs:
        c = cases[v["id"]]
        ctx.distinct_cases.add(canon([c["cores"], c["ni"], c["fail"], c["fn"]]))
        if c["model"] and v.get("ok") and v.get("obs"):
            o = v["obs"]
            seen.setdefault(canon([c["cores"], c["ni"], c["fail"]]), set()).add(
                ",".join(map(str, o["yielded"])) + "|" + o["res"])
    ctx.traces_validated = ctx.extra_cov.get("outcome_in_model", 0)
    ctx.extra_cov["model_outcomes_observed_on_real_code"] = sum(len(s) for s in seen.values())
    ctx.sample({"config [cores, items, fail]": sorted(seen)[len(seen) // 2] if seen else None,
                "outcomes_seen": sorted(seen[sorted(seen)[len(seen) // 2]]) if seen else None})

    if not quick:
        probe = []
        for c in cases[:nmodel:max(1, nmodel // 40)]:
            d = dict(c)
            d["id"] = len(probe)
            d["allowed"] = ["9,9|nil"]
            probe.append(d)
        pv = ctx.run_cases(binary, "mappar", probe, timeout_ms=20000, name="selftest")
        if any(v.get("ok") for v in pv):
            raise Inconclusive("binding self-test: a case with a corrupted expected outcome set was accepted")
        ctx.note("binding self-test: %d cases with corrupted outcome sets were all rejected" % len(pv))

    return ctx.finish(
        "model_checking",
        rule="TLC enumerates every configuration (cores, items, failing subset) of MapParallel.tla with all interleavings "
             "and exports the outcome set per configuration; each configuration is run on the real map-parallel (native "
             "function and lambda) under several seeded perturbations and its (yielded list, nil / error of item k) must "
             "be in that set; random larger configurations (cores 2..8, <= 200 items, 0..4 failing items, three function "
             "kinds) are judged by the statement and, every 16th, against map on the same input. "
             "distinct = distinct (cores, items, failing set, function kind).",
        assumptions=["the mapped function fails by item; failures of the input collection's own iterator are not explored",
                     "the consumer iterates to the end (an abandoned iteration leaks goroutines by design)",
                     "schedules of the real code are sampled by perturbation, not enumerated"],
        exhaustive=False)
