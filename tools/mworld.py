"""Shared driver for the MutableWorld family (C03 C12 C13 C14 C15 C18 C37 C38).

TLC model-checks MutableWorld.tla on a scenario (MCMutableWorld.tla) and exports every distinct state
(STATE lines: abstract world + expected observation) and every transition (EDGE lines).  The driver turns
the graph into operation paths -- every transition reached through its BFS-shortest prefix (so every
spec transition is executed on the real code at least once per implementation), plus seeded random walks --
and the Go adapter (harness/cmd/vh-world) executes them on the real worlds, comparing the observation
after every step with the specification's.  Each property applies its own verdict filter (`sections`).
"""
import collections
import random

from vlib import canon, Inconclusive

QUERIES_MODULE = "MCMutableWorld"

IMPLS_ALL = ["basicmutable", "overlay-basic", "overlay-mutable", "overlay-empty"]
# quick tier: how many of the edge paths an implementation gets per scenario (None = all); a compact base is loaded per case
DEFAULT_IMPL_CAPS = {"overlay-compact": 250}


class Scenario:
    def __init__(self, n, run):
        self.n = n
        self.states = {}
        for s in run.lines.get("STATE", []):
            self.states[canon(s["key"])] = s
        self.edges = run.lines.get("EDGE", [])
        self.out = collections.defaultdict(list)
        for e in self.edges:
            e["_from"] = canon(e["from"])
            e["_to"] = canon(e["to"])
            self.out[e["_from"]].append(e)
        # the initial state is the one with nothing changed and no snapshots
        self.init = canon({"eff": [], "snaps": []})
        if self.init not in self.states:
            cands = [k for k, s in self.states.items() if not s["key"]["eff"] and not s["key"]["snaps"]]
            if len(cands) != 1:
                raise Inconclusive("cannot identify the initial state of scenario %d" % n)
            self.init = cands[0]
        missing = [e for e in self.edges if e["_to"] not in self.states or e["_from"] not in self.states]
        if missing:
            raise Inconclusive("scenario %d: %d edges refer to states that were not exported" % (n, len(missing)))
        # BFS tree
        self.parent = {self.init: None}
        q = collections.deque([self.init])
        while q:
            u = q.popleft()
            for e in self.out[u]:
                if e["_to"] not in self.parent:
                    self.parent[e["_to"]] = e
                    q.append(e["_to"])

    def path_to(self, key):
        path = []
        while self.parent[key] is not None:
            e = self.parent[key]
            path.append(e)
            key = e["_from"]
        path.reverse()
        return path

    def step(self, e):
        st = self.states[e["_to"]]
        return {"ev": e["ev"], "eff": st["eff"], "obs": st["obs"], "snaps": st.get("snaps", [])}

    def base(self):
        return self.states[self.init]["eff"]

    def ids(self):
        return sorted(self.base().keys())

    def edge_paths(self, select=None):
        """one path per transition: BFS-shortest prefix to its source, then the transition"""
        for e in self.edges:
            if e["_from"] not in self.parent:
                continue
            if select is not None and not select(e):
                continue
            yield self.path_to(e["_from"]) + [e]

    def focused_paths(self, rng, depth=3, cap=400):
        """Histories around one feature: for every feature X of the base, ALL op sequences of `depth` steps from the
        initial state that only use operations on X, on what X refers to and on what refers to X (capped by sampling).
        Hidden state that is not a function of the abstract state (side tables left behind by an implicit copy, stale
        index entries, caches) depends on such short histories, which shortest prefixes never take."""
        base = self.base()

        def refs(f):
            out = set(f.get("pts") or []) | set(f.get("members") or [])
            for poly in f.get("polys") or []:
                out |= set(poly)
            return out
        seen = set()
        for x in sorted(base):
            if base[x]["kind"] == "absent":
                continue
            related = {x} | refs(base[x]) | {y for y in base if base[y]["kind"] != "absent" and x in refs(base[y])}
            seqs = []

            def rec(u, path):
                if len(path) == depth:
                    seqs.append(list(path))
                    return
                for e in self.out[u]:
                    ev = e["ev"]
                    if (ev.get("op") in ("add", "addtag", "rmtag") and ev.get("id") in related) or ev.get("op") == "snapshot":
                        path.append(e)
                        rec(e["_to"], path)
                        path.pop()
            rec(self.init, [])
            if len(seqs) > cap:
                seqs = rng.sample(seqs, cap)
            for p in seqs:
                k = tuple(id(e) for e in p)
                if k not in seen:
                    seen.add(k)
                    yield p

    def random_walk(self, rng, length):
        u, path = self.init, []
        for _ in range(length):
            succ = self.out[u]
            if not succ:
                break
            e = rng.choice(succ)
            path.append(e)
            u = e["_to"]
        return path


def export(ctx, n, timeout=1500):
    cfg = open(ctx_spec(ctx, "MCMutableWorld.cfg")).read().replace("Scenario = 1", "Scenario = %d" % n)
    run = ctx.tlc("MCMutableWorld", cfg_text=cfg, timeout=timeout)
    sc = Scenario(n, run)
    if not sc.edges or not sc.states:
        raise Inconclusive("scenario %d exported nothing" % n)
    return sc


def ctx_spec(ctx, name):
    import os
    import vlib
    return os.path.join(vlib.SPEC, name)


def queries(ctx, sc):
    """The search battery as JSON (exported once by TLC as a QUERIES line)"""
    return sc.queries


def make_cases(ctx, sc, impls, sections, queries_json, keys, select=None, walks=0, walk_len=8, cores=1,
               max_edge_paths=None, rng=None, impl_caps=None, end_walks=None, focused=0, frames=("",)):
    cases = []
    ids = sc.ids()
    base = sc.base()
    paths = list(sc.edge_paths(select))
    rng.shuffle(paths)
    if max_edge_paths is not None and len(paths) > max_edge_paths:
        paths = paths[:max_edge_paths]
    edge_only = list(paths)
    walk_only = []
    for _ in range(walks):
        p = sc.random_walk(rng, walk_len)
        if p:
            walk_only.append(p)
    # history-dependent hidden state (stale overlay entries, caches) is not a function of the abstract state, so
    # besides the shortest prefixes, random histories are closed with the operation the property is about
    if end_walks:
        count, length, op = end_walks
        for _ in range(count):
            p = sc.random_walk(rng, rng.randint(2, length))
            if not p:
                continue
            u = p[-1]["_to"]
            closing = [e for e in sc.out[u] if e["ev"]["op"] == op]
            if closing:
                walk_only.append(p + [rng.choice(closing)])
    if focused:
        walk_only += list(sc.focused_paths(rng, depth=3, cap=focused))
    paths = edge_only + walk_only
    for impl in impls:
        ipaths = paths
        cap = (impl_caps or {}).get(impl)
        if cap is not None and len(edge_only) > cap:
            ipaths = edge_only[:cap] + walk_only
        for p in ipaths:
            if impl == "basicmutable" and any(e["ev"]["op"] == "snapshot" for e in p):
                continue
            if impl == "overlay-compact" and any(f["kind"] == "coll" for f in base.values()):
                continue    # the compact format has no collections
            if impl == "tagsoverlay" and any(e["ev"]["op"] not in ("addtag", "snapshot") or not e["ev"].get("ok", True) for e in p):
                continue
            secs = sections
            if impl == "tagsoverlay":
                # MutableTagsOverlayWorld documents that it does not update the search index
                secs = [x for x in sections if x != "search"]
            for fi, frame in enumerate(frames):
                if fi > 0 and (len(cases) % 3):      # the other frames: every third path
                    continue
                cases.append({"id": len(cases), "impl": impl, "base": base, "keys": keys, "ids": ids,
                              "queries": queries_json, "steps": [sc.step(e) for e in p], "sections": secs,
                              "cores": cores, "scenario": sc.n, "frame": frame})
    return cases, len(paths)


def run_family(ctx, prop, scenarios, impls, sections, select=None, meta_rule="", level="model_checking",
               assumptions=None, finish=True, max_paths=None, impl_caps=None, end_walks=None, focused=None, frames=("",)):
    """Common body of the MutableWorld family checks.  focused=(quick cap, thorough cap) per feature, see focused_paths."""
    binary = ctx.go_build("vh-world")
    rng = random.Random(ctx.seed * 7919 + 13)
    total_edges = 0
    total_paths = 0
    cut_examples = []
    for n in scenarios:
        sc = export(ctx, n)
        qrun = sc  # queries come with the scenario export (QUERIES line)
        run = ctx.tlc_runs[-1]
        qs = run.lines.get("QUERIES", [None])[0]
        if qs is None:
            raise Inconclusive("no QUERIES line exported")
        keys = run.lines.get("KEYS", [None])[0]
        walks = ctx.pick(100, 3000)
        cases, npaths = make_cases(ctx, sc, impls, sections, qs, keys, select=select, walks=walks,
                                   walk_len=ctx.pick(8, 14), cores=ctx.pick(1, 3), rng=rng,
                                   max_edge_paths=(max_paths or {}).get(n, ctx.pick(900, None)) if ctx.quick else None,
                                   impl_caps=dict(DEFAULT_IMPL_CAPS, **((impl_caps or {}).get(n) or {})) if ctx.quick else None,
                                   end_walks=(end_walks[0] if ctx.quick else end_walks[1]) if end_walks else None,
                                   focused=(focused[0] if ctx.quick else focused[1]) if focused else 0, frames=frames)
        total_edges += len(sc.edges)
        total_paths += npaths
        if cases:
            c0 = cases[min(len(cases) - 1, 7)]
            ctx.sample({"scenario": n, "impl": c0["impl"], "ops": [s["ev"] for s in c0["steps"]]})
        vs = ctx.run_cases(binary, "mworld", cases, timeout_ms=60000, name="mworld%d" % n)
        for v in vs:
            ctx.evaluations += 1
            c = cases[v["id"]]
            ctx.distinct_cases.add(canon([n, c["impl"], c.get("frame", ""), [s["ev"] for s in c["steps"]]]))
            for k, cnt in (v.get("stats") or {}).items():
                ctx.extra_cov[k] = ctx.extra_cov.get(k, 0) + cnt
            if v.get("ok"):
                if (v.get("stats") or {}).get("cases_cut_short_by_other_mismatch") and len(cut_examples) < 3:
                    cut_examples.append(v.get("msg", ""))
                continue
            ms = ((v.get("obs") or {}).get("mismatches")) if isinstance(v.get("obs"), dict) else None
            rep = {"scenario": n, "impl": c["impl"], "frame": c.get("frame", ""), "ops": [s["ev"] for s in c["steps"]]}
            if ms:
                for m in ms:
                    ctx.fail(m["key"], "scenario %d %s%s: step %d [%s] %s" % (n, c["impl"], (" frame=" + c["frame"]) if c.get("frame") else "", m["step"], m["section"], m["msg"]),
                             dict(rep, mismatch=m))
            else:
                ctx.fail(v.get("key") or "unknown", "scenario %d %s: %s" % (n, c["impl"], v.get("msg", "")), dict(rep, verdict=v))
        ctx.traces_validated += len(cases)
    cut = ctx.extra_cov.get("cases_cut_short_by_other_mismatch", 0)
    if cut:
        ctx.note("%d case(s) ended early because of a mismatch in a section that does not count for %s (the rest of their steps "
                 "was not checked), e.g. %s" % (cut, prop, "; ".join(cut_examples)[:400]))
    ctx.extra_cov["spec_transitions_exported"] = total_edges
    ctx.extra_cov["paths_per_impl"] = total_paths
    if not finish:
        return None
    return ctx.finish(level, rule=meta_rule, assumptions=assumptions or [], exhaustive=False)
