"""Shared orchestration library for the b6 verification checks.

Every property has a module tools/props/<ID>.py (or a shared family module) with
a function run(ctx).  The property module:

  1. runs TLC on the specification(s) (ctx.tlc) -- model checking the spec and
     exporting cases / transition graphs / outcome sets from it,
  2. builds the Go harness from /repo's *current working tree* (ctx.go_build),
  3. executes the exported behaviours on the real code (ctx.run_cases, binding A)
     and/or records real executions and validates them with TLC (binding B),
  4. reports mismatches with ctx.fail(key, what, replay) and finally calls
     ctx.finish(...), which matches failures against KNOWN_FINDINGS.jsonl, writes
     the evidence file, prints VIOLATION / KNOWN-FINDING lines and exits.

Exit codes: 0 held (or only known findings), 1 violation, 2 inconclusive.
"""
import hashlib
import json
import os
import re
import shutil
import subprocess
import sys
import time

VERIF = os.path.dirname(os.path.dirname(os.path.abspath(__file__)))
REPO = os.environ.get("VERIF_REPO", "/repo")
B6 = os.path.join(REPO, "src/diagonal.works/b6")
HARNESS = os.path.join(VERIF, "harness")
SPEC = os.path.join(VERIF, "spec")
# Overrides (used only for trying the checks on scratch worktrees with seeded changes, in parallel):
#   VERIF_REPO=<worktree>  VERIF_WORK=<scratch>  VERIF_EVIDENCE=<dir>
WORKROOT = os.environ.get("VERIF_WORK", os.path.join(VERIF, ".work"))
REPLAYS = os.environ.get("VERIF_REPLAYS", os.path.join(VERIF, "replays"))
EVIDENCE = os.environ.get("VERIF_EVIDENCE", os.path.join(VERIF, "evidence"))
KNOWN = os.path.join(VERIF, "KNOWN_FINDINGS.jsonl")
TLA_JAR = "/opt/veriftools/tla/tla2tools.jar"
TLA_CP = TLA_JAR + ":/opt/veriftools/tla/CommunityModules-deps.jar"
NCPU = os.cpu_count() or 4
# Parallelism of one check. Several checks usually run side by side, so stay well below the core count.
DEFAULT_TLC_WORKERS = int(os.environ.get("VERIF_TLC_WORKERS", "4"))
DEFAULT_HARNESS_WORKERS = int(os.environ.get("VERIF_HARNESS_WORKERS", "6"))

GOENV = {
    "GOFLAGS": "-mod=mod",
    "GOPROXY": "off",
    "GOSUMDB": "off",
    "GOTOOLCHAIN": "local",
    "GONOSUMDB": "*",
    "GONOSUMCHECK": "1",
}


class Inconclusive(Exception):
    pass


def goenv():
    e = dict(os.environ)
    e.update(GOENV)
    return e


def sh(cmd, cwd=None, env=None, timeout=None, check=False):
    p = subprocess.run(cmd, cwd=cwd, env=env, timeout=timeout, stdout=subprocess.PIPE,
                       stderr=subprocess.STDOUT, text=True, errors="replace")
    if check and p.returncode != 0:
        raise Inconclusive("command failed (%d): %s\n%s" % (p.returncode, " ".join(cmd), p.stdout[-4000:]))
    return p


def ensure_gosum():
    """harness/go.sum = /repo's go.sum (+ anything go adds for rapid); never fetched."""
    dst = os.path.join(HARNESS, "go.sum")
    src = os.path.join(B6, "go.sum")
    if not os.path.exists(dst) or os.path.getmtime(dst) < os.path.getmtime(src):
        extra = ""
        keep = os.path.join(HARNESS, "go.sum.extra")
        if os.path.exists(keep):
            extra = open(keep).read()
        with open(src) as f:
            data = f.read()
        with open(dst, "w") as f:
            f.write(data + extra)


class TLCRun:
    def __init__(self):
        self.ok = False            # finished without error
        self.error = None          # short description of the first error
        self.violated = None       # name of violated invariant/property (or "deadlock")
        self.generated = 0
        self.distinct = 0
        self.queue = 0
        self.depth = 0
        self.lines = {}            # tag -> list of decoded JSON payloads from PrintT(<<tag, ToJson(..)>>)
        self.raw = {}              # tag -> list of raw tuples text for non-JSON payloads
        self.out = ""
        self.wall = 0.0
        self.cmd = ""
        self.coverage_zero = []    # actions with 0 count when -coverage was requested
        self.trace = []            # error trace text (if any)


_PRINT_RE = re.compile(r'^<<"([A-Z_0-9]+)", "(.*)">>\s*$')


def parse_tlc_output(text, run):
    for line in text.splitlines():
        m = _PRINT_RE.match(line)
        if m:
            tag, inner = m.group(1), m.group(2)
            try:
                s = json.loads('"' + inner + '"')
                run.lines.setdefault(tag, []).append(json.loads(s))
            except Exception:
                run.raw.setdefault(tag, []).append(inner)
            continue
        m = re.match(r"^(\d+) states generated, (\d+) distinct states found, (\d+) states left on queue", line)
        if m:
            run.generated, run.distinct, run.queue = int(m.group(1)), int(m.group(2)), int(m.group(3))
        m = re.match(r"^The depth of the complete state graph search is (\d+)", line)
        if m:
            run.depth = int(m.group(1))
        m = re.match(r"^Error: Invariant (\S+) is violated", line)
        if m and not run.violated:
            run.violated = m.group(1)
        m = re.match(r"^Error: Action property (\S+) is violated", line)
        if m and not run.violated:
            run.violated = m.group(1)
        if line.startswith("Error: Deadlock reached") and not run.violated:
            run.violated = "deadlock"
        if line.startswith("Error: Temporal properties were violated") and not run.violated:
            run.violated = "temporal"
        if line.startswith("Error:") and run.error is None:
            run.error = line.strip()
        if ("ostcondition" in line and ("is false" in line or "violated" in line)) and not run.violated:
            run.violated = "postcondition"
    run.ok = ("Model checking completed. No error has been found." in text) or \
             ("Finished in" in text and run.error is None and "Error:" not in text)


class Ctx:
    def __init__(self, prop, tier, seed, replay=None):
        self.prop = prop
        self.tier = tier
        self.seed = seed
        self.replay = replay
        self.t0 = time.time()
        self.work = os.path.join(WORKROOT, prop)
        shutil.rmtree(self.work, ignore_errors=True)
        os.makedirs(self.work, exist_ok=True)
        os.makedirs(REPLAYS, exist_ok=True)
        os.makedirs(EVIDENCE, exist_ok=True)
        self.failures = []      # dicts {key, what, replay}
        self.notes = []
        self.tlc_runs = []
        self.states = 0
        self.transitions = 0
        self.traces_validated = 0
        self.samples = []
        self.evaluations = 0
        self.distinct_cases = set()
        self.extra_cov = {}
        self.assumptions = []
        self.checker_cmds = []
        self._built = {}

    # ---------------------------------------------------------------- helpers
    @property
    def quick(self):
        return self.tier == "quick"

    def pick(self, quick, thorough):
        return quick if self.tier == "quick" else thorough

    def note(self, s):
        self.notes.append(s)
        print("note: " + s, flush=True)

    def sample(self, obj, limit=6):
        if len(self.samples) < limit:
            self.samples.append(obj)

    # ---------------------------------------------------------------- TLC
    def specdir(self, *names):
        """Create a scratch copy of spec/ (all .tla/.cfg) under the work dir and return it."""
        d = os.path.join(self.work, "spec" + str(len(os.listdir(self.work))))
        os.makedirs(d)
        for root in (SPEC,):
            for fn in os.listdir(root):
                p = os.path.join(root, fn)
                if os.path.isfile(p) and (fn.endswith(".tla") or fn.endswith(".cfg")):
                    shutil.copy(p, d)
        return d

    def tlc(self, module, cfg=None, workers=None, timeout=900, simulate=None, depth=None,
            files=None, cfg_text=None, extra=None, deadlock=True, xss="64m", heap=None,
            count=True, coverage=False, expect_violation=False, sdir=None, dfs=False, quiet=False):
        """Run TLC on spec/<module>.tla with config <cfg> (a file name in spec/ or text).
        files: dict name->content written next to the spec (traces, generated modules).
        Returns TLCRun.  Raises Inconclusive on tool failure (timeouts, parse errors)."""
        d = sdir or self.specdir()
        if files:
            for name, content in files.items():
                mode = "wb" if isinstance(content, bytes) else "w"
                with open(os.path.join(d, name), mode) as f:
                    f.write(content)
        if cfg_text is not None:
            cfg = module + "_gen.cfg"
            with open(os.path.join(d, cfg), "w") as f:
                f.write(cfg_text)
        if cfg is None:
            cfg = module + ".cfg"
        meta = os.path.join(d, "meta%d" % len(self.tlc_runs))
        jopts = ["-XX:+UseParallelGC", "-Xss" + xss]
        if heap:
            jopts.append("-Xmx" + heap)
        if dfs:
            jopts.append("-Dtlc2.tool.queue.IStateQueue=StateDeque")
        cmd = ["java"] + jopts + ["-cp", TLA_CP, "tlc2.TLC", "-metadir", meta,
                                   "-workers", str(workers or DEFAULT_TLC_WORKERS), "-config", cfg]
        if not deadlock:
            cmd += ["-deadlock"]
        if coverage:
            cmd += ["-coverage", "1"]
        if simulate:
            cmd += ["-simulate", simulate]
        if depth:
            cmd += ["-depth", str(depth)]
        if extra:
            cmd += list(extra)
        cmd += [module + ".tla"]
        run = TLCRun()
        run.cmd = " ".join(cmd)
        t = time.time()
        try:
            p = subprocess.run(cmd, cwd=d, stdout=subprocess.PIPE, stderr=subprocess.STDOUT,
                               text=True, errors="replace", timeout=timeout)
        except subprocess.TimeoutExpired:
            subprocess.run(["pkill", "-f", meta])
            raise Inconclusive("TLC timeout after %ds: %s" % (timeout, run.cmd))
        run.wall = time.time() - t
        run.out = p.stdout
        with open(os.path.join(d, "tlc%d.out" % len(self.tlc_runs)), "w") as f:
            f.write(p.stdout)
        parse_tlc_output(p.stdout, run)
        shutil.rmtree(meta, ignore_errors=True)
        shutil.rmtree(os.path.join(d, "states"), ignore_errors=True)
        self.tlc_runs.append(run)
        self.checker_cmds.append("tlc -config %s %s.tla" % (cfg, module))
        if count:
            self.states += run.distinct
            self.transitions += run.generated
        if not quiet:
            print("tlc %s/%s: generated=%d distinct=%d depth=%d ok=%s violated=%s wall=%.1fs" % (
                module, cfg, run.generated, run.distinct, run.depth, run.ok, run.violated, run.wall), flush=True)
        if not run.ok and not run.violated:
            raise Inconclusive("TLC failed on %s/%s: %s\n%s" % (module, cfg, run.error, p.stdout[-3000:]))
        if run.violated and not expect_violation:
            # A violated property of the *model* is a candidate only; callers decide.  Default: inconclusive
            # unless the caller asked for it (expect_violation=True lets the caller inspect run.violated).
            raise Inconclusive("TLC reports %s violated in %s/%s (model-level; not a verdict)\n%s" % (
                run.violated, module, cfg, p.stdout[-3000:]))
        return run

    # ---------------------------------------------------------------- Go
    def go_build(self, pkg, race=False, tags="verif"):
        """Build harness package ./cmd/<pkg> against /repo's current tree; returns the binary path."""
        keyb = (pkg, race)
        if keyb in self._built:
            return self._built[keyb]
        ensure_gosum()
        out = os.path.join(self.work, "bin", pkg + ("-race" if race else ""))
        os.makedirs(os.path.dirname(out), exist_ok=True)
        cmd = ["go", "build", "-tags", tags, "-o", out]
        if REPO != "/repo":
            # scratch worktree: same module, different replace target, via -modfile
            md = os.path.join(self.work, "gomod")
            os.makedirs(md, exist_ok=True)
            gm = open(os.path.join(HARNESS, "go.mod")).read().replace("/repo/src/diagonal.works/b6", B6)
            with open(os.path.join(md, "go.mod"), "w") as f:
                f.write(gm)
            shutil.copy(os.path.join(HARNESS, "go.sum"), os.path.join(md, "go.sum"))
            cmd.append("-modfile=" + os.path.join(md, "go.mod"))
        if race:
            cmd.append("-race")
        cmd.append("./cmd/" + pkg)
        e = goenv()
        if race:
            e["CGO_ENABLED"] = "1"
        p = sh(cmd, cwd=HARNESS, env=e, timeout=1500)
        if p.returncode != 0:
            raise Inconclusive("go build failed for %s:\n%s" % (pkg, p.stdout[-6000:]))
        self._built[keyb] = out
        return out

    def run_cases(self, binary, adapter, cases, workers=None, timeout_ms=20000, args=None, name=None,
                  total_timeout=3000, retry_hangs=True):
        """Run cases (list of JSON-able objects, or a path to an ndjson file) through
        `<binary> run <adapter>`: each case is executed in a worker child process; a crash or a
        per-case timeout becomes a failed verdict for that case only.
        Returns list of verdict dicts in case order: {id, ok, msg, key, obs, stats}."""
        name = name or adapter
        if isinstance(cases, str):
            cpath = cases
        else:
            cpath = os.path.join(self.work, "%s.cases.%d.ndjson" % (name, len(os.listdir(self.work))))
            with open(cpath, "w") as f:
                for c in cases:
                    f.write(json.dumps(c, separators=(",", ":")) + "\n")
        opath = cpath + ".out"
        cmd = [binary, "run", adapter, "--cases", cpath, "--out", opath,
               "--workers", str(workers or DEFAULT_HARNESS_WORKERS), "--timeout-ms", str(timeout_ms),
               "--seed", str(self.seed)]
        if args:
            cmd += list(args)
        try:
            p = subprocess.run(cmd, stdout=subprocess.PIPE, stderr=subprocess.STDOUT, text=True,
                               errors="replace", timeout=total_timeout, env=goenv())
        except subprocess.TimeoutExpired:
            # the verdicts written so far still count: a change that makes many cases hang or crash uses up the whole
            # budget, and what it did to the cases that were judged is evidence; without any failure among them the
            # run stays inconclusive
            partial = []
            if os.path.exists(opath):
                for line in open(opath):
                    line = line.strip()
                    if line:
                        try:
                            partial.append(json.loads(line))
                        except ValueError:
                            pass
            if any(not r.get("ok") for r in partial):
                self.note("harness run %s was stopped after %d s with %d of %s cases judged; their verdicts are used" % (
                    name, total_timeout, len(partial), len(cases) if not isinstance(cases, str) else "?"))
                partial.sort(key=lambda r: r["id"])
                return partial
            raise Inconclusive("harness run timed out: " + " ".join(cmd))
        if p.returncode != 0:
            raise Inconclusive("harness run failed (%d): %s\n%s" % (p.returncode, " ".join(cmd), p.stdout[-4000:]))
        res = []
        with open(opath) as f:
            for line in f:
                line = line.strip()
                if line:
                    res.append(json.loads(line))
        res.sort(key=lambda r: r["id"])
        # A hang must persist: verdicts that are timeouts (the whole case, or a step the adapter flagged with a
        # key ending in ":hang") are re-run once with little parallelism, so that a loaded machine is not mistaken
        # for a hang in the code under test.
        if retry_hangs and not isinstance(cases, str):
            slow = [r["id"] for r in res if not r.get("ok") and (r.get("key") == "timeout" or str(r.get("key", "")).endswith(":hang")
                                                                 or ":hang:" in str(r.get("key", "")))]
            if slow and len(slow) <= 400:
                byid = {c["id"]: c for c in cases if isinstance(c, dict) and "id" in c}
                again = [byid[i] for i in slow if i in byid]
                if again:
                    self.note("re-running %d case(s) that timed out" % len(again))
                    res2 = self.run_cases(binary, adapter, again, workers=2, timeout_ms=timeout_ms * 2, args=args,
                                          name=name + ".retry", total_timeout=total_timeout, retry_hangs=False)
                    new = {r["id"]: r for r in res2}
                    res = [new.get(r["id"], r) for r in res]
        return res

    def run_tool(self, binary, args, timeout=3000, stdin=None):
        """Run a harness sub-command that prints JSON lines; returns (list of parsed lines, raw output)."""
        try:
            p = subprocess.run([binary] + list(args), stdout=subprocess.PIPE, stderr=subprocess.PIPE, text=True,
                               errors="replace", timeout=timeout, env=goenv(), input=stdin)
        except subprocess.TimeoutExpired:
            raise Inconclusive("harness tool timed out: %s %s" % (binary, " ".join(args)))
        if p.returncode != 0:
            raise Inconclusive("harness tool failed (%d): %s %s\n%s\n%s" % (
                p.returncode, binary, " ".join(args), p.stdout[-2000:], p.stderr[-4000:]))
        out = []
        for line in p.stdout.splitlines():
            line = line.strip()
            if line.startswith("{") or line.startswith("["):
                try:
                    out.append(json.loads(line))
                except Exception:
                    pass
        return out, p.stdout

    # ---------------------------------------------------------------- verdicts
    def count(self, n=1, distinct=None):
        self.evaluations += n
        if distinct is not None:
            self.distinct_cases.add(distinct)

    def fail(self, key, what, replay=None):
        """Register a mismatch between the real code and the specification."""
        for f in self.failures:
            if f["key"] == key:
                f["count"] += 1
                return
        self.failures.append({"key": key, "what": what, "replay": replay, "count": 1})

    def absorb(self, verdicts, case_of=None, describe=None):
        """Count verdicts from run_cases and register failures. case_of(id) returns the case for replay."""
        for v in verdicts:
            self.evaluations += 1
            if v.get("stats"):
                for k, n in v["stats"].items():
                    self.extra_cov[k] = self.extra_cov.get(k, 0) + n
            if not v.get("ok"):
                key = v.get("key") or ("case:" + hashlib.sha1(json.dumps(v.get("obs"), sort_keys=True).encode()).hexdigest()[:12])
                rep = {"verdict": v}
                if case_of is not None:
                    rep["case"] = case_of(v["id"])
                self.fail(key, v.get("msg", ""), rep)

    def finish(self, level, rule, assumptions=None, explanation=None, exhaustive=None, trusted_base=None,
               obligations=None, discharged=None):
        known = []
        fixed = []
        for kpath in (KNOWN, os.path.join(VERIF, "known", self.prop + ".jsonl")):
            if not os.path.exists(kpath):
                continue
            for line in open(kpath):
                line = line.strip()
                if not line or line.startswith("#"):
                    continue
                e = json.loads(line)
                if e.get("property") != self.prop:
                    continue
                (known if e.get("kind") == "known" else fixed).append(e)
        violations = []
        machinery = []     # failed preconditions / set-up problems of the harness itself: never a verdict on the code
        kf = []
        for f in self.failures:
            k = [e for e in known if e["key"] == f["key"]]
            if k:
                kf.append((f, k[0]))
            elif str(f["key"]).startswith("harness"):
                machinery.append(f)
            else:
                violations.append(f)
        for f, e in kf:
            print("KNOWN-FINDING: property=%s %s [key=%s, %d case(s) this run]" % (self.prop, e["what"], f["key"], f["count"]))
        stale = [e for e in known if not any(f["key"] == e["key"] for f in self.failures)]
        for e in stale:
            self.note("known finding not observed in this run (stale or not reached at this tier): " + e["key"])
        rc = 0
        if len(violations) > 8:
            print("(%d distinct violations; printing the first 8, replay files are written for the first 40)" % len(violations))
        for n, f in enumerate(violations[:40]):
            h = hashlib.sha1((self.prop + f["key"]).encode()).hexdigest()[:12]
            path = os.path.join(REPLAYS, "%s-%s.json" % (self.prop, h))
            with open(path, "w") as fh:
                json.dump({"property": self.prop, "key": f["key"], "what": f["what"], "tier": self.tier,
                           "seed": self.seed, "replay": f["replay"]}, fh, indent=1, default=str)
            if n < 8:
                print("VIOLATION property=%s replay=%s" % (self.prop, path))
                print("  key=%s count=%d: %s" % (f["key"], f["count"], str(f["what"])[:600]))
            rc = 1
        if violations:
            with open(os.path.join(REPLAYS, "%s-all.json" % self.prop), "w") as fh:
                json.dump([{"key": f["key"], "what": f["what"], "count": f["count"]} for f in violations], fh, indent=1, default=str)
        cov = {
            "evaluations": self.evaluations,
            "distinct_nontrivial": len(self.distinct_cases) if self.distinct_cases else 0,
            "rule": rule,
            "samples": self.samples[:8] if self.samples else [],
            "states": self.states,
            "transitions": self.transitions,
            "traces_validated_against_impl": self.traces_validated,
            "checker_cmd": "; ".join(self.checker_cmds[:6]),
            "known_findings_observed": [f["key"] for f, _ in kf],
            "notes": self.notes[:40],
        }
        if explanation:
            cov["explanation"] = explanation
        if exhaustive is not None:
            cov["exhaustive"] = exhaustive
        if trusted_base is not None:
            cov["trusted_base"] = trusted_base
        if obligations is not None:
            cov["obligations"] = obligations
            cov["discharged"] = discharged
        cov.update(self.extra_cov)
        ev = {
            "property_id": self.prop,
            "tier": self.tier,
            "seed": self.seed,
            "level": level,
            "coverage": cov,
            "assumptions": (assumptions or []) + self.assumptions,
            "wall_s": round(time.time() - self.t0, 2),
            "violations": len(violations),
        }
        with open(os.path.join(EVIDENCE, self.prop + ".json"), "w") as fh:
            json.dump(ev, fh, indent=1, default=str)
        print("%s %s: evaluations=%d distinct=%d states=%d transitions=%d traces=%d violations=%d known=%d wall=%.1fs" % (
            self.prop, self.tier, self.evaluations, cov["distinct_nontrivial"], self.states, self.transitions,
            self.traces_validated, len(violations), len(kf), time.time() - self.t0), flush=True)
        if machinery and rc == 0:
            for f in machinery[:5]:
                print("INCONCLUSIVE: the harness could not set up or judge a case (no verdict on the code): key=%s count=%d: %s" % (
                    f["key"], f["count"], str(f["what"])[:400]))
            return 2
        return rc


def canon(obj):
    return json.dumps(obj, sort_keys=True, separators=(",", ":"))


def short_hash(obj):
    return hashlib.sha1(canon(obj).encode()).hexdigest()[:12]
