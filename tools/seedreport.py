#!/usr/bin/env python3
"""Regenerates DESIGN.md section 16 (between the SEEDED markers) from /verif/seeded/*/meta.json."""
import glob, json, os, re
V = os.path.dirname(os.path.dirname(os.path.abspath(__file__)))
rows = []
for d in sorted(glob.glob(os.path.join(V, "seeded", "*"))):
    mp = os.path.join(d, "meta.json")
    if not os.path.exists(mp):
        continue
    m = json.load(open(mp))
    summary = (m.get("summary") or "").replace("|", "/").replace("\n", " ")
    needs = (m.get("needs_to_manifest") or "").replace("|", "/").replace("\n", " ")
    checks = "; ".join("%s %s" % (c["check"], "caught (exit 1)" if c["caught"] else "exit %s" % c["exit"]) for c in m.get("checks", []))
    rows.append("| %s | %s | %s | %s | %s | %s |" % (m.get("name"), m.get("property"), summary[:260], needs[:260],
                "yes" if m.get("existing_tests_pass") else "NO", checks))
text = ["<!-- SEEDED-BEGIN -->", "",
        "Breaking changes written by fresh sub-agents that were given only the property's text and their own scratch worktree",
        "(nothing from /verif). Each was confirmed here with `tools/seedtest.py`: the patch applies to /repo HEAD, the touched",
        "packages' existing tests still pass, the agent's demonstration fails with the change and passes without it, and the",
        "checks were run against the patched worktree (`VERIF_REPO`). Patch, demonstration and the full record are in",
        "`/verif/seeded/<name>/`. The last column is the *final* result; section 16.1 lists what had to be strengthened first.", "",
        "| name | property | change | needs, to manifest | existing tests pass | checks |", "|---|---|---|---|---|---|"] + rows + ["", "<!-- SEEDED-END -->"]
p = os.path.join(V, "DESIGN.md")
s = open(p).read()
block = "\n".join(text)
if "<!-- SEEDED-BEGIN -->" in s:
    s = re.sub(r"<!-- SEEDED-BEGIN -->.*<!-- SEEDED-END -->", lambda m: block, s, flags=re.S)
else:
    s += "\n## 16. Seeded changes: which checks catch which\n\n" + block + "\n"
open(p, "w").write(s)
print(len(rows), "seeded changes")
