"""Shared driver for the StaticWorld family (C01 C16 C17 C36 and the build halves of C03/C37).

TLC enumerates the sources of a StaticWorld scenario, checks the design invariants on each (what a build keeps
is valid, layering shadows ID by ID, search results have no duplicates) and prints one CASE line per source
with the world a build must keep and its observation.  The Go adapter `sworld` (harness/cmd/vh-world) builds
every case with the requested world implementations and compares lookup, tags, geometry, search, enumeration
and reference queries with the specification's."""
import os
import random

import vlib
from vlib import canon, Inconclusive


def export(ctx, scenario, timeout=1500):
    cfg = open(os.path.join(vlib.SPEC, "MCStaticWorld.cfg")).read().replace("Scenario = 1", "Scenario = %d" % scenario)
    run = ctx.tlc("MCStaticWorld", cfg_text=cfg, timeout=timeout, workers=4)
    cases = run.lines.get("CASE", [])
    if not cases:
        raise Inconclusive("StaticWorld scenario %d exported no cases" % scenario)
    qs = run.lines.get("QUERIES", [None])[0]
    keys = run.lines.get("KEYS", [None])[0]
    ids = run.lines.get("IDS", [None])[0]
    if qs is None or keys is None or ids is None:
        raise Inconclusive("StaticWorld export lacks QUERIES/KEYS/IDS")
    return cases, qs, keys, ids


def compact_keeps_invalid_area(src, eff):
    """an area of the source that the spec drops although every one of its paths is kept (open or short path)"""
    for n, f in src.items():
        if f["kind"] == "area" and eff[n]["kind"] == "absent":
            paths = [p for poly in f["polys"] for p in poly]
            if paths and all(eff.get(p, {"kind": "absent"})["kind"] == "path" for p in paths):
                return True
    return False


def compact_no_point(src):
    kinds = [f["kind"] for f in src.values() if f["kind"] != "absent"]
    return bool(kinds) and "point" not in kinds


def run_static(ctx, prop, scenario, variants, sections, rule, level="model_checking", assumptions=None,
               max_cases=None, finish=True, interesting=None, race=False):
    """variants: list of dicts {impl, cores, split} -- every exported case is run once per variant."""
    binary = ctx.go_build("vh-world", race=race)
    if race:
        os.environ["GORACE"] = "halt_on_error=1 exitcode=66"
    exported, qs, keys, ids = export(ctx, scenario)
    rng = random.Random(ctx.seed * 104729 + scenario)
    if interesting is not None:
        exported = [c for c in exported if interesting(c)]
    if max_cases is not None and len(exported) > max_cases:
        rng.shuffle(exported)
        exported = exported[:max_cases]
    cases = []
    for v in variants:
        # a compact build costs ~3 s of CPU and ~600 MB whatever its size: variants may cap their number of cases
        vmax = v.get("max")
        if isinstance(vmax, (list, tuple)):
            vmax = ctx.pick(vmax[0], vmax[1])
        taken = 0
        for c in exported:
            if vmax is not None and taken >= vmax:
                break
            if v.get("only") and not v["only"](c):
                continue
            taken += 1
            if ("compact" in v["impl"] or v["impl"] in ("diff", "layered-mixed")) and v["impl"] != "pardiff-basic":
                # two known deviations of the compact builder are kept out of the properties they do not belong to:
                # it keeps areas over open/short paths (C37, known finding) and it crashes on a source that has a
                # relation or path but no point at all (C01, known finding)
                if compact_keeps_invalid_area(c["src"], c["eff"]) or compact_no_point(c["src"]):
                    if not v.get("all_sources"):
                        continue
                if v["impl"].startswith("layered") and (compact_keeps_invalid_area(c["upper"], c["ueff"]) or compact_no_point(c["upper"])):
                    if not v.get("all_sources"):
                        continue
            k = dict(c)
            k.update({"id": len(cases), "impl": v["impl"], "cores": v.get("cores", 1), "split": v.get("split", 1),
                      "keys": keys, "ids": ids, "queries": qs, "sections": v.get("sections", sections),
                      "order": v.get("order", ""), "replicas": v.get("replicas", 0), "frame": v.get("frame", "")})
            cases.append(k)
    if cases:
        c0 = cases[min(len(cases) - 1, 11)]
        ctx.sample({"impl": c0["impl"], "cores": c0["cores"],
                    "source": {n: f for n, f in c0["src"].items() if f["kind"] != "absent"},
                    "dropped_by_spec": c0["dropped"]})
    vs = ctx.run_cases(binary, "sworld", cases, timeout_ms=120000, name="sworld%d" % scenario)
    for v in vs:
        ctx.evaluations += 1
        c = cases[v["id"]]
        ctx.distinct_cases.add(canon([scenario, c["impl"], c["cores"], c["split"], c.get("order"), c.get("frame", ""), c["src"], c.get("upper")]))
        for k, cnt in (v.get("stats") or {}).items():
            ctx.extra_cov[k] = ctx.extra_cov.get(k, 0) + cnt
        if v.get("ok"):
            continue
        rep = {"scenario": scenario, "impl": c["impl"], "cores": c["cores"], "split": c["split"], "src": c["src"], "upper": c.get("upper"), "frame": c.get("frame", "")}
        ms = ((v.get("obs") or {}).get("mismatches")) if isinstance(v.get("obs"), dict) else None
        if ms:
            for m in ms:
                ctx.fail(m["key"], "static scenario %d %s%s cores=%d: [%s] %s" % (scenario, c["impl"], (" frame=" + c["frame"]) if c.get("frame") else "", c["cores"], m["section"], m["msg"]), dict(rep, mismatch=m))
        else:
            ctx.fail(v.get("key") or "unknown", "static scenario %d %s: %s" % (scenario, c["impl"], v.get("msg", "")), dict(rep, verdict=v))
    ctx.traces_validated += len(cases)
    ctx.extra_cov["sources_enumerated_by_tlc"] = ctx.extra_cov.get("sources_enumerated_by_tlc", 0) + len(exported)
    if finish:
        return ctx.finish(level, rule=rule, assumptions=assumptions or [], exhaustive=(max_cases is None))
    return None
