#!/usr/bin/env python3
"""Regenerates /verif/MANIFEST.json from the META dict of every tools/props/Cxx.py and tools/not_applicable.json."""
import importlib
import json
import os
import sys

HERE = os.path.dirname(os.path.abspath(__file__))
sys.path.insert(0, HERE)
VERIF = os.path.dirname(HERE)


def main():
    props = [json.loads(l)["id"] for l in open(os.path.join(VERIF, "properties.jsonl")) if l.strip()]
    checks = []
    enabled = set(open(os.path.join(HERE, "enabled.txt")).read().split())
    claimed = set()
    engines = {}
    for pid in props:
        path = os.path.join(HERE, "props", pid + ".py")
        if not os.path.exists(path):
            continue
        mod = importlib.import_module("props." + pid)
        meta = getattr(mod, "META", None)
        if not meta or meta.get("disabled") or pid not in enabled:
            continue
        claimed.add(pid)
        c = {
            "property_id": pid,
            "quick_cmd": "python3 tools/check.py %s --tier quick" % pid,
            "thorough_cmd": "python3 tools/check.py %s --tier thorough" % pid,
            "evidence_file": "/verif/evidence/%s.json" % pid,
            "replay_cmd_template": "python3 tools/check.py %s --replay {path}" % pid,
            "engine": meta.get("engine", ""),
            "level_claimed": {"category": meta["level"], "text": meta["text"], "design_ref": meta.get("design_ref", "DESIGN.md section 6 " + pid)},
            "level_note": meta["note"],
            "technique": meta.get("technique", "TLA+ specification model-checked with TLC; behaviours replayed on the real code"),
        }
        checks.append(c)
        if meta.get("engine"):
            e = engines.setdefault(meta["engine"], {"name": meta["engine"], "path": meta.get("engine_path", "spec/, harness/cmd/"), "serves_properties": [], "kind_free_text": meta.get("engine_kind", "")})
            e["serves_properties"].append(pid)
    na = []
    nap = os.path.join(HERE, "not_applicable.json")
    reasons = json.load(open(nap)) if os.path.exists(nap) else {}
    for pid in props:
        if pid not in claimed:
            na.append({"property_id": pid, "reason": reasons.get(pid, "no check built yet in this round; planned in DESIGN.md section 6")})
    hooks_commits = []
    hp = os.path.join(HERE, "hook_commits.txt")
    if os.path.exists(hp):
        hooks_commits = [l.split()[0] for l in open(hp) if l.strip() and not l.startswith("#")]
    man = {
        "version": 1,
        "setup_cmd": "python3 tools/setup.py",
        "hooks": {
            "guard": "verif",
            "enable": "go build -tags verif (the harness module replaces diagonal.works/b6 with /repo/src/diagonal.works/b6)",
            "baseline_off_cmd": "for m in $(cat /w/out/gomods.txt); do MF=$(cd /repo/$m && . /w/out/goenv.sh && gomodflag); (cd /repo/$m && go test $MF -json -vet=off -count=1 -timeout 25m ./...); done",
            "source_commits": hooks_commits,
            "add_only": False,
        },
        "engines": list(engines.values()),
        "checks": checks,
        "notes": "Hooks: three commits; all new files carry //go:build verif (or !verif for the no-op twin). One hook "
                 "rewrites a line: in api/functions/change.go `return change.Apply(c.Worlds.FindOrCreateWorld(id))` is split "
                 "into two statements so that a gate point can sit between them (hence add_only=false); everything else only adds. "
                 "Every check: TLA+ spec in spec/, model-checked by TLC (or Apalache), bound to the code by replaying "
                 "TLC-exported transitions/cases on the real packages and/or validating recorded traces. "
                 "Known findings: KNOWN_FINDINGS.jsonl. Design: DESIGN.md.",
        "not_applicable": na,
    }
    with open(os.path.join(VERIF, "MANIFEST.json"), "w") as f:
        json.dump(man, f, indent=1)
    print("MANIFEST.json: %d checks, %d not_applicable" % (len(checks), len(na)))
    try:
        import jsonschema
        jsonschema.validate(man, json.load(open("/root/.vp/MANIFEST.schema.json")))
        print("schema ok")
    except ImportError:
        pass


if __name__ == "__main__":
    main()
